(* C12/Wrap.v — byteTextWrap: every chunk fits, nothing lost or invented,
   termination for size >= 4 (unbounded, by induction on the fuel with a
   measure invariant). *)
From Coq Require Import List NArith ZArith Bool Lia ZifyBool Arith.
Import ListNotations.
Require Import Base.Wire Base.PyStr C12.Model.
Open Scope N_scope.

(* ---------- UTF-8 length ---------- *)
Lemma clen_bounds c : 1 <= clen c <= 4.
Proof. unfold clen. destruct (c <? 128), (c <? 2048), (c <? 65536); lia. Qed.

Lemma utf8_char_len c : N.of_nat (length (utf8_char c)) = clen c.
Proof. unfold utf8_char, clen. destruct (c <? 128), (c <? 2048), (c <? 65536); reflexivity. Qed.

Lemma utf8_len s : N.of_nat (length (utf8 s)) = blen s.
Proof.
  induction s as [|c s IH]; [reflexivity|].
  unfold utf8 in *. cbn [flat_map blen]. rewrite app_length, Nat2N.inj_add, utf8_char_len, IH. reflexivity.
Qed.

Lemma blen_app a b : blen (a ++ b) = blen a + blen b.
Proof. induction a as [|c a IH]; cbn [app blen]; [reflexivity|]. rewrite IH. lia. Qed.

Lemma blen_pos_nonnil w : 0 < blen w -> w <> [].
Proof. destruct w; cbn [blen]; [lia|discriminate]. Qed.

(* ---------- take_bytes ---------- *)
Lemma take_bytes_app size w : fst (take_bytes size w) ++ snd (take_bytes size w) = w.
Proof.
  revert size. induction w as [|c w IH]; intro size; cbn [take_bytes]; [reflexivity|].
  destruct (clen c <=? size); [|reflexivity].
  specialize (IH (size - clen c)). destruct (take_bytes (size - clen c) w) as [a b].
  cbn [fst snd app] in *. rewrite IH. reflexivity.
Qed.

Lemma take_bytes_le size w : blen (fst (take_bytes size w)) <= size.
Proof.
  revert size. induction w as [|c w IH]; intro size; cbn [take_bytes]; [cbn; lia|].
  destruct (clen c <=? size) eqn:E; [|cbn; lia].
  specialize (IH (size - clen c)). destruct (take_bytes (size - clen c) w) as [a b].
  cbn [fst blen] in *. lia.
Qed.

Lemma take_bytes_nonempty size w : 4 <= size -> w <> [] -> fst (take_bytes size w) <> [].
Proof.
  intros Hs Hw. destruct w as [|c w]; [congruence|]. cbn [take_bytes].
  pose proof (clen_bounds c). destruct (clen c <=? size) eqn:E; [|lia].
  destruct (take_bytes (size - clen c) w). cbn. discriminate.
Qed.

(* ---------- split_word: splitBytes plus the progress rule ---------- *)
Lemma split_word_app size w : fst (split_word size w) ++ snd (split_word size w) = w.
Proof.
  unfold split_word. pose proof (take_bytes_app size w) as H.
  destruct (take_bytes size w) as [[|b bs] [|c w']]; cbn [fst snd app] in *; try exact H.
Qed.

Lemma split_word_nonempty size w : w <> [] -> fst (split_word size w) <> [].
Proof.
  intro Hw. unfold split_word. pose proof (take_bytes_app size w) as H.
  destruct (take_bytes size w) as [[|b bs] [|c w']]; cbn [fst snd app] in *; try discriminate. congruence.
Qed.

Lemma split_word_le size w : 4 <= size -> blen (fst (split_word size w)) <= size.
Proof.
  intro Hs. unfold split_word. pose proof (take_bytes_le size w) as H.
  destruct (take_bytes size w) as [[|b bs] [|c w']]; cbn [fst] in *; try exact H.
  cbn [blen]. pose proof (clen_bounds c). lia.
Qed.

(* ---------- the loop: chunks fit ---------- *)
Definition fits (size : N) (l : str) : Prop := blen l <= size.

Lemma btw_loop_fits fuel : forall size words done cur ls,
  4 <= size -> fits size cur -> Forall (fits size) done ->
  btw_loop fuel size words done cur = Ok ls -> Forall (fits size) ls.
Proof.
  induction fuel as [|f IH]; intros size words done cur ls Hs4 Hc Hd H; [discriminate|].
  cbn [btw_loop] in H. destruct words as [|word0 rest].
  - injection H as <-. change (Forall (fits size) (rev (cur :: done))). apply Forall_rev. constructor; assumption.
  - destruct (size <? blen word0) eqn:Es.
    + pose proof (split_word_le size word0 Hs4) as Hle.
      destruct (split_word size word0) as [word after]. cbn [fst] in Hle.
      destruct word as [|w0 word']; [discriminate|]. cbn [andb] in H.
      destruct (blen cur + blen (w0 :: word') <=? size) eqn:E.
      * eapply IH; [exact Hs4| | exact Hd | exact H]. unfold fits. rewrite blen_app. lia.
      * eapply IH; [exact Hs4| | | exact H]; [exact Hle|constructor; assumption].
    + cbn [andb] in H.
      destruct (blen cur + blen word0 <=? size) eqn:E.
      * eapply IH; [exact Hs4| | exact Hd | exact H]. unfold fits. rewrite blen_app. lia.
      * eapply IH; [exact Hs4| | | exact H]; [unfold fits; lia|constructor; assumption].
Qed.

(* ---------- the loop: concatenation preserved ---------- *)
Lemma btw_loop_concat fuel : forall size words done cur ls,
  btw_loop fuel size words done cur = Ok ls ->
  concat ls = concat (rev done) ++ cur ++ concat words.
Proof.
  induction fuel as [|f IH]; intros size words done cur ls H; [discriminate|].
  cbn [btw_loop] in H. destruct words as [|word0 rest].
  - injection H as <-. rewrite concat_app. cbn. rewrite !app_nil_r. reflexivity.
  - destruct (size <? blen word0) eqn:Es.
    + pose proof (split_word_app size word0) as Happ.
      destruct (split_word size word0) as [word after]. cbn [fst snd] in Happ.
      destruct word as [|w0 word']; [discriminate|]. cbn [andb] in H.
      destruct (blen cur + blen (w0 :: word') <=? size).
      * apply IH in H. rewrite H. cbn [concat]. rewrite <- Happ. rewrite <- !app_assoc. reflexivity.
      * apply IH in H. rewrite H. cbn [rev concat]. rewrite concat_app. cbn [concat].
        rewrite <- Happ. rewrite app_nil_r, <- !app_assoc. reflexivity.
    + cbn [andb] in H.
      destruct (blen cur + blen word0 <=? size).
      * apply IH in H. rewrite H. cbn [concat]. rewrite <- !app_assoc. reflexivity.
      * apply IH in H. rewrite H. cbn [rev concat]. rewrite concat_app. cbn [concat].
        rewrite app_nil_r, <- !app_assoc. reflexivity.
Qed.

(* ---------- the loop: terminates for size >= 4 ---------- *)
Lemma btw_loop_total fuel : forall size words done cur,
  (length (concat words) + length words < fuel)%nat ->
  exists ls, btw_loop fuel size words done cur = Ok ls.
Proof.
  induction fuel as [|f IH]; intros size words done cur Hm; [lia|].
  cbn [btw_loop]. destruct words as [|word0 rest]; [eexists; reflexivity|].
  cbn [concat length] in Hm. rewrite app_length in Hm.
  destruct (size <? blen word0) eqn:Es.
  - assert (Hne : word0 <> []) by (apply blen_pos_nonnil; lia).
    pose proof (split_word_nonempty size word0 Hne) as Hb.
    pose proof (split_word_app size word0) as Happ.
    destruct (split_word size word0) as [word after]. cbn [fst snd] in Hb, Happ.
    destruct word as [|w0 word']; [congruence|]. cbn [andb].
    assert (Hlen : (length after < length word0)%nat).
    { rewrite <- Happ. rewrite app_length. cbn [length]. lia. }
    destruct (blen cur + blen (w0 :: word') <=? size); apply IH;
      cbn [concat length]; rewrite app_length; lia.
  - cbn [andb]. destruct (blen cur + blen word0 <=? size); apply IH; lia.
Qed.

(* ---------- byteTextWrap ---------- *)
Lemma byteTextWrap_inv words size ls :
  byteTextWrap words size = Ok ls ->
  btw_loop (btw_fuel words) (N.max 1 (Z.to_N size)) words [] [] = Ok ls.
Proof. unfold byteTextWrap. destruct (existsb has_surrogate words); [discriminate|auto]. Qed.

Theorem wrap_bytes : forall words (n : Z) ls,
  (4 <= n)%Z -> byteTextWrap words n = Ok ls ->
  Forall (fun l => (Z.of_nat (length (utf8 l)) <= n)%Z) ls.
Proof.
  intros words n ls Hn H. apply byteTextWrap_inv in H.
  apply btw_loop_fits in H; [| lia | unfold fits; cbn; lia | constructor].
  eapply Forall_impl; [|exact H]. intros l Hl. unfold fits in Hl.
  rewrite <- utf8_len in Hl. lia.
Qed.

Theorem wrap_concat : forall words n ls,
  byteTextWrap words n = Ok ls -> concat ls = concat words.
Proof. intros words n ls H. apply byteTextWrap_inv in H. apply btw_loop_concat in H. exact H. Qed.

(* for EVERY width (even 0 or negative: a line takes at least one character) the loop terminates:
   each step consumes a word or shortens it by at least one character *)
Theorem wrap_total : forall words (n : Z),
  existsb has_surrogate words = false ->
  exists ls, byteTextWrap words n = Ok ls.
Proof.
  intros words n Hs. unfold byteTextWrap. rewrite Hs.
  apply btw_loop_total. unfold btw_fuel. apply Nat.lt_succ_diag_r.
Qed.

(* the closed word splitter: runs of blanks / non-blanks of the munged text *)
Lemma runs_concat s : concat (runs s) = s.
Proof.
  induction s as [|c s IH]; [reflexivity|]. cbn [runs].
  destruct (runs s) as [|[|d w] rest] eqn:E.
  - cbn in *. subst. reflexivity.
  - cbn in *. subst. reflexivity.
  - destruct (Bool.eqb (c =? SPC) (d =? SPC)); cbn in *; rewrite IH; reflexivity.
Qed.

Theorem wrap_munge : forall s n ls,
  byteTextWrap (split_chunks s) n = Ok ls -> concat ls = munge s.
Proof. intros s n ls H. apply wrap_concat in H. rewrite H. apply runs_concat. Qed.

(* below 4 bytes the Python loop can spin for ever (splitBytes returns b'') *)
(* below 4 bytes a chunk may be a single character longer than the width (it used to loop for ever) *)
Example wrap_small_widths :
  byteTextWrap [[97; 233; 98]] 1 = Ok [[97]; [233]; [98]] /\
  byteTextWrap [[104; 105]; [32]; [111]] 0 = Ok [[104]; [105]; [32]; [111]] /\
  byteTextWrap [[104; 105]; [32]; [111]] (-7) = Ok [[104]; [105]; [32]; [111]].
Proof. repeat split; vm_compute; reflexivity. Qed.

(* non-vacuity: a multi-byte text really is split *)
Example wrap_example :
  byteTextWrap (split_chunks [104; 233; 108; 108; 111; 32; 128512; 128512; 128512]) 5
  = Ok [[104; 233; 108; 108]; [111; 32]; [128512]; [128512]; [128512]].
Proof. vm_compute. reflexivity. Qed.
