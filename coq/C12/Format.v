(* C12/Format.v — ircutils.wrap on formatted text: whenever no chunk (after the
   first) starts with a digit or a comma -- i.e. no cut falls inside a colour
   sequence or in front of text that a re-opened colour prefix would swallow --
   every chunk fits the requested length.  F14's witnesses are outside. *)
From Coq Require Import List NArith ZArith Bool Lia ZifyBool Arith.
Import ListNotations.
Require Import Base.Wire Base.PyStr C12.Model C12.Wrap C12.Total C12.Chars C12.Parser.
Open Scope N_scope.

(* ---------- every context FormatParser can produce: a finite table ---------- *)
Definition opts16 : list (option N) := None :: map Some (map N.of_nat (seq 0 16)).
Definition bools : list bool := [false; true].
Definition all_ctx : list fctx :=
  flat_map (fun f => flat_map (fun b => flat_map (fun bo => flat_map (fun re =>
    map (fun ul => FC f b bo re ul) bools) bools) bools) opts16) opts16.

Lemma in_opts16 o : small16 o = true -> In o opts16.
Proof.
  destruct o as [n|]; [|left; reflexivity]. cbn [small16]. intro H. right.
  apply in_map. apply in_map_iff. exists (N.to_nat n). split; [lia|]. apply in_seq. lia.
Qed.

Lemma in_bools b : In b bools.
Proof. destruct b; cbn; auto. Qed.

Lemma in_all_ctx c : c16 c = true -> In c all_ctx.
Proof.
  destruct c as [f b bo re ul]. unfold c16. cbn [fg bg]. intro H. apply andb_true_iff in H as [Hf Hb].
  unfold all_ctx. apply in_flat_map. exists f. split; [apply in_opts16; exact Hf|].
  apply in_flat_map. exists b. split; [apply in_opts16; exact Hb|].
  apply in_flat_map. exists bo. split; [apply in_bools|].
  apply in_flat_map. exists re. split; [apply in_bools|].
  apply in_map. apply in_bools.
Qed.

(* ---------- re-opening a context ---------- *)
Definition oeqb (a b : option N) : bool :=
  match a, b with Some x, Some y => x =? y | None, None => true | _, _ => false end.
Lemma oeqb_eq a b : oeqb a b = true -> a = b.
Proof. destruct a, b; cbn; intro H; try discriminate; [apply N.eqb_eq in H; subst|]; reflexivity. Qed.

Definition relb (c d : fctx) : bool :=
  Bool.eqb (fbold c) (fbold d) && Bool.eqb (frev c) (frev d) && Bool.eqb (ful c) (ful d) && oeqb (bg c) (bg d) &&
  (oeqb (fg c) (fg d) || (negb (isset (fg d)) && isset (bg d) && oeqb (fg c) (Some 0))).

Lemma relb_rel c d : relb c d = true -> rel c d.
Proof.
  unfold relb, rel. intro H.
  apply andb_true_iff in H as [H Hfg]. apply andb_true_iff in H as [H Hbg].
  apply andb_true_iff in H as [H Hul]. apply andb_true_iff in H as [Hb Hr].
  apply Bool.eqb_prop in Hb, Hr, Hul. apply oeqb_eq in Hbg. repeat split; try assumption.
  apply orb_true_iff in Hfg as [Hfg|Hfg]; [left; apply oeqb_eq; exact Hfg|right].
  apply andb_true_iff in Hfg as [Hfg H0]. apply andb_true_iff in Hfg as [Hn Hs]. apply oeqb_eq in H0.
  destruct (fg d); [discriminate|]. destruct (bg d); [|discriminate]. repeat split; [discriminate|exact H0].
Qed.

Definition reopen_ok (d : fctx) : bool :=
  match parse (fstart d []) with Ok (c, _) => relb c d | Raise _ => false end.

Lemma reopen_table : forallb reopen_ok all_ctx = true.
Proof. vm_compute. reflexivity. Qed.

Lemma reopen d : c16 d = true -> exists c m, pg fc0 0 (fstart d []) = Ok (c, m) /\ rel c d.
Proof.
  intro H. pose proof reopen_table as T. rewrite forallb_forall in T. specialize (T d (in_all_ctx d H)).
  unfold reopen_ok in T. rewrite parse_pg in T. destruct (pg fc0 0 (fstart d [])) as [[c m]|]; [|discriminate].
  exists c, m. split; [reflexivity|apply relb_rel; exact T].
Qed.

Lemma rel_trans a b c : rel a b -> rel b c -> rel a c.
Proof.
  intros (A1 & A2 & A3 & A4 & A5) (B1 & B2 & B3 & B4 & B5). repeat split; try congruence.
  destruct A5 as [A5|(A5 & A6 & A7)], B5 as [B5|(B5 & B6 & B7)].
  - left. congruence.
  - right. repeat split; congruence.
  - right. repeat split; congruence.
  - congruence.
Qed.

(* ---------- what a context costs: prefix of start(), one byte of end() ---------- *)
Definition plen (c : fctx) : N := blen (fstart c []).
Definition alen (c : fctx) : N := if factive c then 1 else 0.

Definition cands (d : fctx) : list fctx :=
  d :: match fg d, bg d with
       | None, Some b => [FC (Some 0) (Some b) (fbold d) (frev d) (ful d)]
       | _, _ => []
       end.

Definition pair_ok (c d : fctx) : bool :=
  ((plen c =? 0) || (plen c + 1 <=? fsize d)) && (negb (factive c) || (1 <=? fsize d)).

Lemma pair_table : forallb (fun d => forallb (fun c => pair_ok c d) (cands d)) all_ctx = true.
Proof. vm_compute. reflexivity. Qed.

Lemma rel_cands c d : rel c d -> In c (cands d).
Proof.
  destruct c as [f b bo re ul], d as [f' b' bo' re' ul']. unfold rel, cands. cbn [fg bg fbold frev ful].
  intros (-> & -> & -> & -> & [->|(-> & Hb & ->)]); [left; reflexivity|].
  destruct b' as [b'|]; [right; left; reflexivity|congruence].
Qed.

Lemma pair_facts c d : c16 d = true -> rel c d ->
  (plen c = 0 \/ plen c + 1 <= fsize d) /\ (factive c = true -> 1 <= fsize d).
Proof.
  intros Hd Hr. pose proof pair_table as T. rewrite forallb_forall in T. specialize (T d (in_all_ctx d Hd)).
  rewrite forallb_forall in T. specialize (T c (rel_cands c d Hr)). unfold pair_ok in T.
  apply andb_true_iff in T as [T1 T2]. split.
  - apply orb_true_iff in T1 as [T1|T1]; [left; apply N.eqb_eq; exact T1|right; apply N.leb_le; exact T1].
  - intro Hf. rewrite Hf in T2. cbn [negb orb] in T2. apply N.leb_le; exact T2.
Qed.

Lemma fstart_app c r : fstart c r = fstart c [] ++ r.
Proof.
  unfold fstart. destruct (fbold c), (frev c), (ful c), (fg c), (bg c); cbn [app];
    repeat (rewrite <- app_assoc; cbn [app]); reflexivity.
Qed.

Lemma blen_fend c p : blen (fend c p) = blen p + alen c.
Proof. unfold fend, alen. destruct (factive c); [rewrite blen_app; reflexivity|lia]. Qed.

(* ---------- the safe-cut predicate ---------- *)
Definition raw_chunks (s : str) (n : Z) : res (list str) :=
  do pm <- parse s; byteTextWrap (split_chunks s) (n - Z.of_N (snd pm)).

(* decidable on (text, width): no chunk after the first starts with a digit (any character
   str.isdecimal accepts) or a comma *)
Definition safe_cuts (s : str) (n : Z) : bool :=
  match raw_chunks s n with
  | Ok (_ :: rest) => forallb safe_head rest
  | _ => true
  end.

(* text whose only blanks are spaces: munging leaves it alone *)
Definition munged (s : str) : bool := forallb (fun c => negb (mem c [9; 10; 11; 12; 13])) s.

Lemma expandtabs_id s : munged s = true -> forall col, expandtabs col s = s.
Proof.
  induction s as [|c s IH]; intros H col; [reflexivity|]. cbn [munged forallb] in H.
  apply andb_true_iff in H as [Hc Hs]. cbn [expandtabs].
  assert (E9 : (c =? 9) = false).
  { unfold mem in Hc. cbn [existsb] in Hc. apply negb_true_iff in Hc. apply orb_false_iff in Hc as [Hc _]. exact Hc. }
  rewrite E9. destruct ((c =? 10) || (c =? 13)); rewrite (IH Hs); reflexivity.
Qed.

Lemma munge_id s : munged s = true -> munge s = s.
Proof.
  intro H. unfold munge. rewrite (expandtabs_id s H 0). induction s as [|c s IH]; [reflexivity|].
  cbn [munged forallb] in H. apply andb_true_iff in H as [Hc Hs]. cbn [map]. rewrite (IH Hs). f_equal.
  unfold is_ws, mem in *. cbn [existsb] in *. apply negb_true_iff in Hc.
  repeat (apply orb_false_iff in Hc as [? Hc]).
  rewrite H, H0, H1, H2, H3. cbn [orb]. destruct (c =? 32) eqn:E; [apply N.eqb_eq in E; subst; reflexivity|reflexivity].
Qed.

(* ---------- the loop of wrap() over the chunks ---------- *)
Lemma safe_head_concat rest :
  Forall nonnil rest -> forallb safe_head rest = true -> safe_head (concat rest) = true.
Proof.
  destruct rest as [|r rest]; [reflexivity|]. intros Hn Hs. inversion Hn as [|? ? Hr _]; subst.
  cbn [forallb] in Hs. apply andb_true_iff in Hs as [Hs _]. cbn [concat].
  destruct r as [|x r]; [exfalso; apply Hr; reflexivity|exact Hs].
Qed.

Lemma process_fits (budget mx : N) (cF : fctx) : forall todo c d md ls,
  rel c d -> c16 c = true -> c16 d = true -> fsize d <= md ->
  pg d md (concat todo) = Ok (cF, mx) ->
  Forall nonnil todo -> forallb safe_head todo = true -> Forall (fits budget) todo ->
  process (Some c) todo = Ok ls -> Forall (fun o => blen o <= budget + mx) ls.
Proof.
  induction todo as [|r rest IH]; intros c d md ls Hrel Hc Hd Hsz Hwhole Hnn Hsafe Hfit Hp.
  - cbn [process] in Hp. injection Hp as <-. constructor.
  - inversion Hnn as [|? ? Hr Hnrest]; subst. inversion Hfit as [|? ? Hfr Hfrest]; subst.
    cbn [forallb] in Hsafe. apply andb_true_iff in Hsafe as [Hsr Hsrest].
    (* the true parse over this chunk, then over the rest *)
    cbn [concat] in Hwhole.
    destruct (pg_app (concat rest) (safe_head_concat rest Hnrest Hsrest) r d md) as (d1 & md1 & Hd1 & Hsplit).
    rewrite Hsplit in Hwhole.
    destruct (pg_mono _ _ _ _ _ Hd1) as [Hm1 Hs1]. specialize (Hs1 Hsz).
    destruct (pg_mono _ _ _ _ _ Hwhole) as [Hm2 _].
    (* the re-opened chunk *)
    cbn [process] in Hp. rewrite fstart_app in Hp. rewrite parse_pg in Hp.
    destruct (reopen c Hc) as (c' & m' & Hre & Hrel').
    destruct (pg_app r Hsr (fstart c []) fc0 0) as (c'' & m'' & Hre2 & Happ).
    rewrite Hre in Hre2. injection Hre2 as <- <-. rewrite Happ in Hp.
    destruct (parse_go_total (S (length r)) c' m' r ltac:(lia)) as [[c1 m1] Hc1].
    change (parse_go (S (length r)) c' m' r) with (pg c' m' r) in Hc1. rewrite Hc1 in Hp. cbn [bind fst] in Hp.
    assert (Hrel1 : rel c1 d1) by (eapply pg_rel; [exact (rel_trans _ _ _ Hrel' Hrel)|exact Hc1|exact Hd1]).
    assert (Hc16' : c16 c' = true) by (eapply pg_c16; [exact Hre|reflexivity]).
    assert (Hc1_16 : c16 c1 = true) by (eapply pg_c16; [exact Hc1|exact Hc16']).
    assert (Hd1_16 : c16 d1 = true) by (eapply pg_c16; [exact Hd1|exact Hd]).
    destruct (process (Some c1) rest) as [tl|e] eqn:Etl; [|discriminate]. cbn [bind] in Hp. injection Hp as <-.
    constructor.
    + rewrite blen_fend, blen_app. fold (plen c).
      destruct (pair_facts c d Hd Hrel) as [Hp1 _]. destruct (pair_facts c1 d1 Hd1_16 Hrel1) as [_ Ha1].
      unfold fits in Hfr. unfold alen. destruct (factive c1); [specialize (Ha1 eq_refl)|]; destruct Hp1; lia.
    + eapply IH; [exact Hrel1|exact Hc1_16|exact Hd1_16|exact Hs1|exact Hwhole|exact Hnrest|exact Hsrest|exact Hfrest|exact Etl].
Qed.

(* ---------- (3) every chunk fits whenever the cuts are safe ---------- *)
Theorem fmt_chunk_fits : forall s (n : Z) cF mx ls,
  s <> [] -> munged s = true -> parse s = Ok (cF, mx) -> (Z.of_N mx + 4 <= n)%Z ->
  safe_cuts s n = true -> wrap s n = Ok ls ->
  Forall (fun c => (Z.of_nat (length (utf8 c)) <= n)%Z) ls.
Proof.
  intros s n cF mx ls Hne Hmu Hparse Hn Hsafe Hw.
  unfold safe_cuts, raw_chunks in Hsafe. unfold wrap, wrap_w in Hw. rewrite Hparse in Hsafe, Hw. cbn [bind snd] in Hsafe, Hw.
  destruct (byteTextWrap (split_chunks s) (n - Z.of_N mx)) as [raw|e] eqn:Eb; [|discriminate]. cbn [bind] in Hw.
  pose proof (byteTextWrap_nonnil s (n - Z.of_N mx) raw ltac:(lia) Hne Eb) as Hnn.
  pose proof (wrap_munge s _ raw Eb) as Hcat. rewrite (munge_id s Hmu) in Hcat.
  pose proof Eb as Hfit. apply byteTextWrap_inv in Hfit.
  apply btw_loop_fits in Hfit; [|lia|unfold fits; cbn; lia|constructor].
  replace (N.max 1 (Z.to_N (n - Z.of_N mx))) with (Z.to_N (n - Z.of_N mx)) in Hfit by lia.
  set (budget := Z.to_N (n - Z.of_N mx)) in *.
  assert (Goal : Forall (fun o => blen o <= budget + mx) ls).
  { destruct raw as [|r1 rest]; [cbn [process] in Hw; injection Hw as <-; constructor|].
    inversion Hnn as [|? ? Hr1 Hnrest]; subst. inversion Hfit as [|? ? Hf1 Hfrest]; subst.
    cbn [process] in Hw. rewrite parse_pg in Hw.
    rewrite parse_pg in Hparse. try rewrite <- Hcat in Hparse. cbn [concat] in Hparse.
    destruct (pg_app (concat rest) (safe_head_concat rest Hnrest Hsafe) r1 fc0 0) as (c1 & m1 & Hc1 & Hsplit).
    rewrite Hsplit in Hparse. rewrite Hc1 in Hw. cbn [bind fst] in Hw.
    destruct (pg_mono _ _ _ _ _ Hc1) as [_ Hs1]. specialize (Hs1 ltac:(change (fsize fc0) with 0; lia)).
    destruct (pg_mono _ _ _ _ _ Hparse) as [Hm2 _].
    assert (Hc16 : c16 c1 = true) by (eapply pg_c16; [exact Hc1|reflexivity]).
    destruct (process (Some c1) rest) as [tl|e] eqn:Etl; [|discriminate]. cbn [bind] in Hw. injection Hw as <-.
    constructor.
    - rewrite blen_fend. destruct (pair_facts c1 c1 Hc16 (rel_refl c1)) as [_ Ha].
      unfold fits in Hf1. unfold alen. destruct (factive c1); [specialize (Ha eq_refl)|]; lia.
    - eapply process_fits; [apply rel_refl|exact Hc16|exact Hc16|exact Hs1|exact Hparse|exact Hnrest|exact Hsafe|exact Hfrest|exact Etl]. }
  eapply Forall_impl; [|exact Goal]. intros o Ho. cbv beta in Ho. rewrite <- utf8_len in Ho. unfold budget in Ho. lia.
Qed.

(* F14's witnesses are outside the predicate; a coloured text with colour 0 is inside *)
Example safe_cuts_examples :
  safe_cuts (repeat 97 10 ++ [3; 49; 50; 98; 32; 99]) 16 = false /\
  safe_cuts (3 :: 52 :: repeat 97 7 ++ 32 :: 44 :: 53 :: repeat 98 6 ++ 32 :: repeat 99 7) 12 = false /\
  safe_cuts (3 :: 48 :: repeat 97 30 ++ 32 :: repeat 98 30) 32 = true /\
  munged (3 :: 48 :: repeat 97 30 ++ 32 :: repeat 98 30) = true.
Proof. repeat split; vm_compute; reflexivity. Qed.
