(* C12/Model.v — executable model of the long-reply splitter:
     utils.str.byteTextWrap / splitBytes          (src/utils/str.py)
     ircutils.FormatContext / FormatParser / wrap (src/ircutils.py)
     NestedCommandsIrcProxy.reply arithmetic, _makeReply payload, the _mores
     stack (src/callbacks.py) and Misc.more popping (plugins/Misc/plugin.py).
   Mirrors the Python statement by statement, defects included.  No proofs. *)
From Coq Require Import List NArith ZArith Bool.
Import ListNotations.
Require Import Base.Wire Base.PyStr.
Require gen.T12.
Open Scope N_scope.

(* ------------------------------------------------------------------ *)
(* UTF-8: str.encode() of one code point / of a string                  *)
Definition is_surrogate (c : N) : bool := (55296 <=? c) && (c <=? 57343).
Definition has_surrogate (s : str) : bool := existsb is_surrogate s.

Definition clen (c : N) : N :=
  if c <? 128 then 1 else if c <? 2048 then 2 else if c <? 65536 then 3 else 4.

Definition utf8_char (c : N) : bytes :=
  if c <? 128 then [c]
  else if c <? 2048 then [192 + c / 64; 128 + c mod 64]
  else if c <? 65536 then [224 + c / 4096; 128 + (c / 64) mod 64; 128 + c mod 64]
  else [240 + c / 262144; 128 + (c / 4096) mod 64; 128 + (c / 64) mod 64; 128 + c mod 64].

Definition utf8 (s : str) : bytes := flat_map utf8_char s.

(* len(s.encode()) without building the bytes *)
Fixpoint blen (s : str) : N :=
  match s with [] => 0 | c :: s' => clen c + blen s' end.

Definition slen (s : str) : N := N.of_nat (length s).      (* len(s): characters *)

(* ------------------------------------------------------------------ *)
(* textwrap.TextWrapper()._munge_whitespace: expandtabs(8) then the six
   ASCII whitespace characters -> ' '                                     *)
Definition SPC : N := 32.
Definition is_ws (c : N) : bool := mem c [9; 10; 11; 12; 13; 32].

Fixpoint expandtabs (col : N) (s : str) : str :=
  match s with
  | [] => []
  | c :: s' =>
      if c =? 9 then repeat SPC (N.to_nat (8 - col mod 8)) ++ expandtabs 0 s'
      else if (c =? 10) || (c =? 13) then c :: expandtabs 0 s'
      else c :: expandtabs ((col + 1) mod 8) s'
  end.

Definition munge (s : str) : str :=
  map (fun c => if is_ws c then SPC else c) (expandtabs 0 s).

(* TextWrapper._split on munged, hyphen-free text: maximal runs of spaces and
   of non-spaces.  (With hyphens CPython splits words more finely; wrap_w and
   byteTextWrap below take the word list as an explicit input.) *)
Fixpoint runs (s : str) : list str :=
  match s with
  | [] => []
  | c :: s' =>
      match runs s' with
      | (d :: w) :: rest =>
          if Bool.eqb (c =? SPC) (d =? SPC) then (c :: d :: w) :: rest
          else [c] :: (d :: w) :: rest
      | [] :: rest => [c] :: rest
      | [] => [[c]]
      end
  end.

Definition split_chunks (s : str) : list str := runs (munge s).

(* ------------------------------------------------------------------ *)
(* splitBytes(word, size) on a word that is the encoding of [w]:
   tries size, size-1, .. size-3 and cuts at the first offset from which the
   rest decodes, i.e. at the largest character boundary <= size (always
   within 3 bytes).  On code points: the longest prefix of at most [size] bytes. *)
Fixpoint take_bytes (size : N) (w : str) : str * str :=
  match w with
  | [] => ([], [])
  | c :: w' =>
      if clen c <=? size then
        let (a, b) := take_bytes (size - clen c) w' in (c :: a, b)
      else ([], w)
  end.

(* splitBytes(word, size), then the progress rule of byteTextWrap: if `before` is empty (size smaller than
   the next character) that character is taken anyway *)
Definition split_word (size : N) (w : str) : str * str :=
  match take_bytes size w with
  | ([], c :: w') => ([c], w')
  | p => p
  end.

(* byteTextWrap's while loop.  [done] = lines[:-1] reversed, [cur] = lines[-1].
   Raise OtherError  = `before` empty: impossible since the progress rule (kept so that the shape of the
                       loop is unchanged; C12_wrap_total proves it is never reached);
   Raise AssertionError = fuel exhausted (proved impossible). *)
Fixpoint btw_loop (fuel : nat) (size : N) (words : list str) (done : list str) (cur : str)
  : res (list str) :=
  match fuel with
  | O => Raise AssertionError
  | S f =>
      match words with
      | [] => Ok (rev (cur :: done))
      | word0 :: rest =>
          let split := size <? blen word0 in
          let '(word, after) := if split then split_word size word0 else (word0, []) in
          if split && (match word with [] => true | _ => false end) then Raise OtherError
          else
            let words' := if split then after :: rest else rest in
            if blen cur + blen word <=? size then btw_loop f size words' done (cur ++ word)
            else btw_loop f size words' (cur :: done) word
      end
  end.

Definition btw_fuel (words : list str) : nat := S (length (concat words) + length words).

(* byteTextWrap(text, size) with words = TextWrapper()._split_chunks(text) *)
Definition byteTextWrap (words : list str) (size : Z) : res (list str) :=
  if existsb has_surrogate words then Raise UnicodeError        (* w.encode() *)
  else btw_loop (btw_fuel words) (N.max 1 (Z.to_N size)) words [] [].   (* if size < 1: size = 1 *)

(* ------------------------------------------------------------------ *)
(* FormatContext *)
Record fctx := FC { fg : option N; bg : option N; fbold : bool; frev : bool; ful : bool }.
Definition fc0 : fctx := FC None None false false false.

(* bool(self.fg): colour 0 is falsy *)
Definition truthy (o : option N) : bool :=
  match o with Some n => negb (n =? 0) | None => false end.
Definition b2n (b : bool) : N := if b then 1 else 0.

(* `x is not None` *)
Definition isset (o : option N) : bool := match o with Some _ => true | None => false end.

Definition fsize (c : fctx) : N :=
  let p := b2n (fbold c) + b2n (frev c) + b2n (ful c) + b2n (isset (fg c)) + b2n (isset (bg c)) in
  let p := if isset (bg c) then p + gen.T12.SIZE_BOTH
           else if isset (fg c) then p + gen.T12.SIZE_ONE else p in
  if p =? 0 then 0 else p + 1.

(* str(n) and str(n).zfill(2) for colour numbers (< 16 by getInt) *)
Definition str2 (n : N) : str := if n <? 10 then [48 + n] else [48 + n / 10; 48 + n mod 10].
Definition zfill2 (n : N) : str := if n <? 10 then [48; 48 + n] else str2 n.

(* context.start(s): bold, reverse, underline, then mircColor(..)[:-1] *)
Definition fstart (c : fctx) (s : str) : str :=
  let s := if fbold c then 2 :: s else s in
  let s := if frev c then 22 :: s else s in
  let s := if ful c then 31 :: s else s in
  match fg c, bg c with
  | None, None => s
  | Some f, None => 3 :: zfill2 f ++ s
  | None, Some b => 3 :: 48 :: 48 :: 44 :: zfill2 b ++ s
  | Some f, Some b => 3 :: str2 f ++ 44 :: zfill2 b ++ s
  end.

Definition factive (c : fctx) : bool :=
  fbold c || frev c || truthy (fg c) || truthy (bg c) || ful c.

Definition fend (c : fctx) (s : str) : str := if factive c then s ++ [15] else s.

(* ------------------------------------------------------------------ *)
(* FormatParser.  The one-slot unget buffer is only ever refilled with the
   character just read, so parsing is a function of the remaining list. *)
Fixpoint digit_lookup (t : list (N * N)) (c : N) : option N :=
  match t with
  | [] => None
  | (k, v) :: t' => if c =? k then Some v else digit_lookup t' c
  end.
(* `c and c in string.digits` -> Some (int(c)) *)
Definition digit_val (c : N) : option N :=
  if (48 <=? c) && (c <=? 57) then Some (c - 48) else None.
(* \d of a str regex: c.isdigit() and int(c) works (table regenerated from CPython) *)
Definition udigit_val (c : N) : option N :=
  if c <? 128 then digit_val c else digit_lookup gen.T12.DIGITS c.

Fixpoint getInt (i : N) (setI : bool) (s : str) : res (option N * str) :=
  let ret := if setI then Some i else None in
  match s with
  | [] => Ok (ret, [])
  | c :: s' =>
      match digit_val c with
      | None => Ok (ret, s)
      | Some v =>
          let j := i * 10 + v in
          if gen.T12.COLOR_LIMIT <=? j then Ok (ret, s) else getInt j true s'
      end
  end.

Definition getColor (c : fctx) (s : str) : res (fctx * str) :=
  do r <- getInt 0 false s;
  let c1 := FC (fst r) (bg c) (fbold c) (frev c) (ful c) in
  match snd r with
  | x :: s2 =>
      if x =? 44 then
        do r2 <- getInt 0 false s2;
        Ok (FC (fg c1) (fst r2) (fbold c1) (frev c1) (ful c1), snd r2)
      else Ok (c1, snd r)
  | [] => Ok (c1, [])
  end.

(* parse(): returns the final context and max_context_size *)
Fixpoint parse_go (fuel : nat) (c : fctx) (mx : N) (s : str) : res (fctx * N) :=
  match fuel with
  | O => Raise AssertionError
  | S f =>
      match s with
      | [] => Ok (c, mx)
      | ch :: s' =>
          if ch =? 2 then
            let c' := FC (fg c) (bg c) (negb (fbold c)) (frev c) (ful c) in
            parse_go f c' (N.max mx (fsize c')) s'
          else if ch =? 22 then
            let c' := FC (fg c) (bg c) (fbold c) (negb (frev c)) (ful c) in
            parse_go f c' (N.max mx (fsize c')) s'
          else if ch =? 31 then
            let c' := FC (fg c) (bg c) (fbold c) (frev c) (negb (ful c)) in
            parse_go f c' (N.max mx (fsize c')) s'
          else if ch =? 15 then parse_go f fc0 mx s'
          else if ch =? 3 then
            do r <- getColor c s';
            parse_go f (fst r) (N.max mx (fsize (fst r))) (snd r)
          else parse_go f c mx s'
      end
  end.

Definition parse (s : str) : res (fctx * N) := parse_go (S (length s)) fc0 0 s.

(* ircutils.wrap(s, length) with words = _split_chunks(s) *)
Fixpoint process (ctx : option fctx) (chunks : list str) : res (list str) :=
  match chunks with
  | [] => Ok []
  | ch :: rest =>
      let ch' := match ctx with Some c => fstart c ch | None => ch end in
      do r <- parse ch';
      do tl <- process (Some (fst r)) rest;
      Ok (fend (fst r) ch' :: tl)
  end.

Definition wrap_w (words : list str) (s : str) (length : Z) : res (list str) :=
  do pm <- parse s;
  do chunks <- byteTextWrap words (length - Z.of_N (snd pm));
  process None chunks.

Definition wrap (s : str) (length : Z) : res (list str) := wrap_w (split_chunks s) s length.

(* ircutils.stripFormatting restricted to what wrap can add or cut: colour
   sequences \x03 [d[d]] [, d[d]] (ASCII digits, greedy), bold, reverse,
   underline, italic, reset.  Used by the visible-text clause. *)
Definition is_d (c : N) : bool :=      (* \d of a str pattern: Unicode decimal digits *)
  match udigit_val c with Some v => negb (v =? 99) | None => false end.
(* the regex \x03(?:\d{1,2},\d{1,2}|\d{1,2}|,\d{1,2}|) followed by the removal of \x02 \x16 \x1f
   \x1d \x0f, as a character machine: VC after \x03, VF1/VF2 after one/two foreground digits,
   VP/VP0 a comma that is eaten only if a digit follows, VB1 after one background digit *)
Inductive vst : Type := VN | VC | VF1 | VF2 | VP | VP0 | VB1.

(* (each branch spells out the "ordinary character" case so that the extracted, strict code only
   evaluates the recursive call it needs) *)
Fixpoint vis (st : vst) (s : str) : str :=
  match s with
  | [] => match st with VP | VP0 => [44] | _ => [] end
  | c :: s' =>
      match st with
      | VN => if c =? 3 then vis VC s' else if mem c [2; 22; 31; 29; 15] then vis VN s' else c :: vis VN s'
      | VC => if is_d c then vis VF1 s' else if c =? 44 then vis VP0 s'
              else if c =? 3 then vis VC s' else if mem c [2; 22; 31; 29; 15] then vis VN s' else c :: vis VN s'
      | VF1 => if is_d c then vis VF2 s' else if c =? 44 then vis VP s'
               else if c =? 3 then vis VC s' else if mem c [2; 22; 31; 29; 15] then vis VN s' else c :: vis VN s'
      | VF2 => if c =? 44 then vis VP s'
               else if c =? 3 then vis VC s' else if mem c [2; 22; 31; 29; 15] then vis VN s' else c :: vis VN s'
      | VP | VP0 => if is_d c then vis VB1 s'
                    else 44 :: (if c =? 3 then vis VC s' else if mem c [2; 22; 31; 29; 15] then vis VN s' else c :: vis VN s')
      | VB1 => if is_d c then vis VN s'
               else if c =? 3 then vis VC s' else if mem c [2; 22; 31; 29; 15] then vis VN s' else c :: vis VN s'
      end
  end.
Definition visible (s : str) : str := vis VN s.

(* ------------------------------------------------------------------ *)
(* NestedCommandsIrcProxy.reply (finalEvaled, not nested, no action/notice/
   private/to keyword) and _makeReply *)
Record cfg := Cfg {
  c_prefix : str;        (* irc.prefix: nick!user@host of the bot *)
  c_arg0 : str;          (* msg.args[0]: channel, or the bot's nick in a query *)
  c_nick : str;          (* msg.nick *)
  c_public : bool;       (* irc.isChannel(msg.args[0]) *)
  c_prefixNick : bool;   (* supybot.reply.withNickPrefix *)
  c_noticePriv : bool;   (* supybot.reply.withNoticeWhenPrivate *)
  c_mores : bool;        (* supybot.reply.mores *)
  c_length : N;          (* supybot.reply.mores.length *)
  c_maximum : N;         (* supybot.reply.mores.maximum *)
  c_instant : N;         (* supybot.reply.mores.instant *)
  c_private : bool;      (* irc.reply(..., private=True) *)
  c_inPrivate : bool;    (* supybot.reply.inPrivate (consulted by _makeReply when private is None) *)
  c_to : option str;     (* irc.reply(..., to=<nick|channel>) *)
  c_to_public : bool;    (* irc.isChannel(to) *)
  c_notice : bool;       (* irc.reply(..., notice=True) *)
  c_withNotice : bool;   (* supybot.reply.withNotice (consulted when notice is None) *)
  c_one : str;           (* _('more message') in the bot's language *)
  c_many : str           (* _('more messages') *)
}.

Definition s_privmsg : str := [80; 82; 73; 86; 77; 83; 71].
Definition s_notice : str := [78; 79; 84; 73; 67; 69].

(* _makeReply's view of the reply: private = self.private (True or None -> conf), to = self.to *)
Definition eff_private (k : cfg) : bool := c_private k || c_inPrivate k.
(* target: replyTo(msg); a public `to` overrides; a private reply goes to `to` or msg.nick *)
Definition real_target (k : cfg) : str :=
  let t0 := if c_public k then c_arg0 k else c_nick k in
  let t1 := match c_to k with Some t => if c_to_public k then t else t0 | None => t0 end in
  if eff_private k then match c_to k with Some t => t | None => c_nick k end else t1.
(* isPublic(target): nicks are not channels *)
Definition target_public (k : cfg) : bool :=
  if eff_private k then match c_to k with Some _ => c_to_public k | None => false end
  else match c_to k with Some _ => c_to_public k || c_public k | None => c_public k end.
(* the "nick: " put in front: `to` (default msg.nick) unless private, the target is a nick, or `to` is a channel *)
Definition nick_prefix (k : cfg) : str :=
  let to' := match c_to k with Some t => t | None => c_nick k end in
  let to_pub := match c_to k with Some _ => c_to_public k | None => false end in
  if c_prefixNick k && negb (eff_private k) && target_public k && negb to_pub
  then to' ++ gen.T12.NICK_SEP else [].
Definition cmd_of (k : cfg) : str :=
  if c_notice k || c_withNotice k || (negb (target_public k) && c_noticePriv k) then s_notice else s_privmsg.

(* str(_makeReply(irc, msg, s, to=self.to, notice=self.notice, private=self.private, prefixNick=self.prefixNick)) *)
Definition makeReply (k : cfg) (s : str) : str :=
  let s := strip [1] s in
  let s := match s with [] => gen.T12.EMPTY_MSG | _ => s end in
  cmd_of k ++ [32] ++ real_target k ++ [32; 58] ++ (nick_prefix k ++ s) ++ [13; 10].

(* '%i' % n *)
Fixpoint dec_go (fuel : nat) (n : N) (acc : str) : str :=
  match fuel with
  | O => acc
  | S f => let acc' := (48 + n mod 10) :: acc in
           if n / 10 =? 0 then acc' else dec_go f (n / 10) acc'
  end.
Definition dec (n : N) : str := dec_go (S (N.size_nat n)) n [].

(* ' ' + bold('(%i %s)' % (len(msgs), more)) *)
Definition suffix (k : cfg) (i n : N) : str :=
  [32; 2; 40] ++ dec n ++ [32] ++ (if i =? 1 then c_one k else c_many k) ++ [41; 2].

(* max(map(len, ['(XX %s)' % _('more message'), '(XX %s)' % _('more messages')] encoded)) + 3 *)
Definition more_reserve (k : cfg) : N :=
  N.max (blen ([40; 88; 88; 32] ++ c_one k ++ [41])) (blen ([40; 88; 88; 32] ++ c_many k ++ [41])) + 3.

(* the for loop over enumerate(reversed chunks): msgs in Python order
   (msgs[-1] is the first message to send) *)
Fixpoint build_msgs (k : cfg) (i : N) (rchunks : list str) (msgs : list str) : list str :=
  match rchunks with
  | [] => msgs
  | ch :: rest =>
      let ch' := if i =? 0 then ch else ch ++ suffix k i (N.of_nat (length msgs)) in
      build_msgs k (i + 1) rest (msgs ++ [makeReply k ch'])
  end.

(* msgs.pop() *)
Definition pop (l : list str) : option (str * list str) :=
  match rev l with [] => None | x :: r => Some (x, rev r) end.

(* while instant > 1 and msgs: ... *)
Fixpoint instant_loop (fuel : nat) (instant : N) (msgs sent : list str) : list str * list str :=
  match fuel with
  | O => (msgs, sent)
  | S f =>
      if 1 <? instant then
        match pop msgs with
        | Some (m, msgs') => instant_loop f (instant - 1) msgs' (sent ++ [m])
        | None => (msgs, sent)
        end
      else (msgs, sent)
  end.

(* s[:n] for a possibly negative n *)
Definition slice_to (s : str) (n : Z) : str :=
  if (n <? 0)%Z then firstn (Z.to_nat (Z.of_nat (length s) + n)) s else firstn (Z.to_nat n) s.

(* recipient = _makeReply(self, msg, 'x', **replyArgs).args[0]: reply() asks _makeReply *)
Definition reserve_recipient (k : cfg) : str := real_target k.

(* the room reply() computes when mores.length = 0 (byteLength of prefix, recipient and nick) *)
Definition line_room (k : cfg) : Z :=
  (Z.of_N gen.T12.LINE_MAX - Z.of_N gen.T12.FIXED_OVERHEAD
   - Z.of_N (blen (c_prefix k)) - Z.of_N (blen (reserve_recipient k))
   - (if c_prefixNick k
      then Z.of_N (blen (match c_to k with Some t => t | None => c_nick k end)) + Z.of_N (slen gen.T12.NICK_SEP)
      else 0))%Z.                                     (* byteLength(self.to or msg.nick) + len(': ') *)

Definition allowed_length (k : cfg) : Z :=
  if c_length k =? 0 then line_room k else Z.of_N (c_length k).

(* result: (messages sent now, in order; the _mores list in Python order) *)
Definition reply (k : cfg) (s0 : str) : res (list str * list str) :=
  let allowed := allowed_length k in
  let maxlen := (allowed * Z.of_N (c_maximum k))%Z in
  let s := if (maxlen <? Z.of_nat (length s0))%Z then slice_to s0 maxlen else s0 in
  if has_surrogate s then Raise UnicodeError                     (* s.encode() *)
  else if (Z.of_N (blen s) <=? allowed)%Z || negb (c_mores k) then Ok ([makeReply k s], [])
  else
    do chunks <- wrap s (allowed - Z.of_N (more_reserve k));
    let msgs := build_msgs k 0 (rev chunks) [] in
    let '(msgs, sent) := instant_loop (length msgs) (c_instant k) msgs [] in
    match pop msgs with
    | None => Ok (sent, [])
    | Some (m, msgs') => Ok (sent ++ [m], msgs')
    end.

(* ircutils.isValidArgument / safeArgument.  repr() is CPython's: [r] is repr(s), an explicit input. *)
Definition arg_char (c : N) : bool := negb (mem c [0; 10; 13]).
Definition valid_arg (s : str) : bool := forallb arg_char s.
Definition safe_arg (s r : str) : str := if valid_arg s then s else r.

(* the length-checked branch of reply() starts with  s = ircutils.safeArgument(s) : everything after it
   (measuring, truncating, wrapping, the suffixes) works on the safe text *)
Definition reply_top (k : cfg) (s r : str) : res (list str * list str) := reply k (safe_arg s r).

(* Misc.more: msgs = L[-number:]; msgs.reverse(); L[-number:] = [] *)
Definition more (L : list str) (number : N) : list str * list str :=
  let n := N.to_nat number in
  let keep := (length L - n)%nat in
  (rev (skipn keep L), firstn keep L).

(* a reply followed by [k] more commands: transcript of what is sent *)
Fixpoint mores_go (times : nat) (L : list str) (number : N) : list (list str) :=
  match times with
  | O => []
  | S t => let (sent, L') := more L number in sent :: mores_go t L' number
  end.

(* Irc._truncateMsg as applied by takeMsg (untagged message): measured in UTF-8 bytes; the cut
   bytes[:MAX-2].decode('utf-8', 'ignore') keeps the characters that lie wholly within MAX-2 bytes *)
Definition truncate_msg (line : str) : str :=
  if gen.T12.IRCLIB_MAX_LINE_SIZE <? blen line
  then fst (take_bytes (gen.T12.IRCLIB_MAX_LINE_SIZE - 2) line) ++ [13; 10] else line.

(* what takeMsg() hands to the driver for the command and each following more *)
Definition session (k : cfg) (s : str) (number : N) (times : nat) : res (list (list str)) :=
  do r <- reply k s;      (* s: the safe text, see reply_top *)
  Ok (map (map truncate_msg) (fst r :: mores_go times (snd r) number)).

(* ---- `more <nick>`: another user looks at the owner's pending chunks ----
   Message objects are modelled by an identity number.  Irc.takeMsg() used to assert that an object it
   hands to the driver does not yet carry the 'emulatedEcho' tag, and the firewall around it swallowed the
   AssertionError: an IrcMsg object could be sent once (finding C12.F44, repaired in Misc.more by copying).
   Since the repair of C19.F47 takeMsg echoes a fresh copy when the object is already tagged and sends the
   message all the same, so every queued message is delivered, shared object or not; the identities only
   record what was sent. *)
Record pmsg := PM { pm_id : N; pm_line : str }.
Record mstate := MS {
  ms_owner : list pmsg;      (* irc._mores[owner's user@host], also reachable as irc._mores[owner's nick] *)
  ms_peer : list pmsg;       (* irc._mores[the other user's user@host] *)
  ms_sent : list N;          (* objects already tagged emulatedEcho *)
  ms_next : N                (* next fresh identity *)
}.
Inductive mop : Type := OpOwner | OpPeerNick | OpPeer.   (* owner: more; peer: more <owner's nick>; peer: more *)

(* queueMsg + takeMsg for each message: each one reaches the driver (tagged or not) *)
Fixpoint take_all (sent : list N) (msgs : list pmsg) : list str * list N :=
  match msgs with
  | [] => ([], sent)
  | m :: r => let (out, s') := take_all (pm_id m :: sent) r in (pm_line m :: out, s')
  end.

(* msgs = L[-number:]; msgs.reverse(); L[-number:] = [] *)
Definition more_p (L : list pmsg) (number : N) : list pmsg * list pmsg :=
  let keep := (length L - N.to_nat number)%nat in (rev (skipn keep L), firstn keep L).

(* [ircmsgs.IrcMsg(msg=m) for m in L]: new objects with the same text *)
Fixpoint copy_msgs (next : N) (L : list pmsg) : list pmsg * N :=
  match L with
  | [] => ([], next)
  | m :: r => let (r', n') := copy_msgs (next + 1) r in (PM next (pm_line m) :: r', n')
  end.

Definition mstep (number : N) (st : mstate) (op : mop) : list str * mstate :=
  match op with
  | OpOwner =>
      let (msgs, L') := more_p (ms_owner st) number in
      let (out, s') := take_all (ms_sent st) msgs in
      (out, MS L' (ms_peer st) s' (ms_next st))
  | OpPeerNick =>
      let (cp, n') := copy_msgs (ms_next st) (ms_owner st) in
      let (msgs, P') := more_p cp number in
      let (out, s') := take_all (ms_sent st) msgs in
      (out, MS (ms_owner st) P' s' n')
  | OpPeer =>
      let (msgs, P') := more_p (ms_peer st) number in
      let (out, s') := take_all (ms_sent st) msgs in
      (out, MS (ms_owner st) P' s' (ms_next st))
  end.

Fixpoint mrun (number : N) (st : mstate) (ops : list mop) : list (list str) * mstate :=
  match ops with
  | [] => ([], st)
  | op :: r => let (out, st1) := mstep number st op in
               let (outs, st2) := mrun number st1 r in (out :: outs, st2)
  end.

Fixpoint number_from (i : N) (l : list str) : list pmsg :=
  match l with [] => [] | x :: r => PM i x :: number_from (i + 1) r end.

(* a reply in a channel, then a sequence of more / more <nick> / more by the owner and one other user *)
Definition session2 (k : cfg) (s : str) (number : N) (ops : list mop) : res (list (list str)) :=
  do r <- reply k s;
  let L := number_from 0 (snd r) in
  Ok (map (map truncate_msg) (fst r :: fst (mrun number (MS L [] [] (N.of_nat (length L))) ops))).

(* the line as the server relays it: ":" prefix " " str(m) *)
Definition relayed (k : cfg) (line : str) : str := 58 :: c_prefix k ++ 32 :: line.
Definition line_fits (k : cfg) (line : str) : bool := blen (relayed k line) <=? gen.T12.LINE_MAX.

(* ------------------------------------------------------------------ *)
(* How irc.nick and irc.prefix (the hostmask reply() measures) follow the server: the preamble of
   Irc.feedMsg learns the prefix from any message of the bot itself, Irc.doNick follows the bot's own
   NICK.  Messages are given by the three parts of their prefix (user and host contain no '!' / '@',
   so splitHostmask undoes joinHostmask). *)
Record ident := ID { i_nick : str; i_prefix : str }.
Definition hostmask (n u h : str) : str := n ++ [33] ++ u ++ [64] ++ h.
Inductive sev : Type :=
| EvMsg (n u h : str)                (* any message with prefix n!u@h that is not a NICK *)
| EvNick (n u h new : str).          (* :n!u@h NICK new *)

(* if msg.nick == self.nick and self.prefix != msg.prefix: self.prefix = msg.prefix *)
Definition feed_fix (st : ident) (n u h : str) : ident :=
  if seq_eqb n (i_nick st) && negb (seq_eqb (i_prefix st) (hostmask n u h))
  then ID (i_nick st) (hostmask n u h) else st.

Definition ident_step (st : ident) (ev : sev) : ident :=
  match ev with
  | EvMsg n u h => feed_fix st n u h
  | EvNick n u h new =>
      let st1 := feed_fix st n u h in
      if seq_eqb n (i_nick st1) then
        (* newNick = msg.args[0]; self.nick = newNick; (nick, user, domain) = splitHostmask(msg.prefix);
           self.prefix = joinHostmask(self.nick, user, domain) *)
        let nick' := new in ID nick' (hostmask nick' u h)
      else st1
  end.

Definition ident_run (st : ident) (evs : list sev) : ident := fold_left ident_step evs st.

Definition gEv (v : value) : sev :=
  if gB (nth_v 0 v) then EvNick (gS (nth_v 1 v)) (gS (nth_v 2 v)) (gS (nth_v 3 v)) (gS (nth_v 4 v))
  else EvMsg (gS (nth_v 1 v)) (gS (nth_v 2 v)) (gS (nth_v 3 v)).

(* ------------------------------------------------------------------ *)
(* wire *)
Definition vCtx (c : fctx) : value :=
  L [vO vN (fg c); vO vN (bg c); vB (fbold c); vB (frev c); vB (ful c)].
Definition gCfg (v : value) : cfg :=
  Cfg (gS (nth_v 0 v)) (gS (nth_v 1 v)) (gS (nth_v 2 v)) (gB (nth_v 3 v)) (gB (nth_v 4 v))
      (gB (nth_v 5 v)) (gB (nth_v 6 v)) (gN (nth_v 7 v)) (gN (nth_v 8 v)) (gN (nth_v 9 v))
      (gB (nth_v 10 v)) (gB (nth_v 11 v)) (gO gS (nth_v 12 v)) (gB (nth_v 13 v)) (gB (nth_v 14 v)) (gB (nth_v 15 v))
      (gS (nth_v 16 v)) (gS (nth_v 17 v)).

(* run: (op payload)
   0 s                -> utf8 bytes, blen
   1 s                -> (munge s, split_chunks s)
   2 (words size)     -> byteTextWrap
   3 (words s length) -> wrap_w
   4 s                -> parse: (ctx, max_context_size)
   5 (cfg s number times repr(s)) -> session transcript (reply_top: safeArgument first)
   6 s                -> visible s
   7 (s length)       -> wrap with the model's own splitter
   9 (nick prefix events) -> (irc.nick, irc.prefix) after the events ((0 n u h) message, (1 n u h new) NICK)
   8 (cfg s number ops repr(s)) -> session2 transcript (ops: 0 owner's more, 1 peer's more <nick>, 2 peer's more) *)
Definition run (v : value) : value :=
  let p := nth_v 1 v in
  match gN (nth_v 0 v) with
  | 0 => L [vS (utf8 (gS p)); vN (blen (gS p)); vB (has_surrogate (gS p))]
  | 1 => L [vS (munge (gS p)); vLS (split_chunks (gS p))]
  | 2 => vR vLS (byteTextWrap (gLS (nth_v 0 p)) (gZ (nth_v 1 p)))
  | 3 => vR vLS (wrap_w (gLS (nth_v 0 p)) (gS (nth_v 1 p)) (gZ (nth_v 2 p)))
  | 4 => vR (fun r => L [vCtx (fst r); vN (snd r)]) (parse (gS p))
  | 5 => vR (fun t => L (map vLS t))
            (session (gCfg (nth_v 0 p)) (safe_arg (gS (nth_v 1 p)) (gS (nth_v 4 p))) (gN (nth_v 2 p)) (N.to_nat (gN (nth_v 3 p))))
  | 6 => vS (visible (gS p))
  | 7 => vR vLS (wrap (gS (nth_v 0 p)) (gZ (nth_v 1 p)))
  | 8 => vR (fun t => L (map vLS t))
            (session2 (gCfg (nth_v 0 p)) (safe_arg (gS (nth_v 1 p)) (gS (nth_v 4 p))) (gN (nth_v 2 p))
                      (map (fun v => match gN v with 0 => OpOwner | 1 => OpPeerNick | _ => OpPeer end) (gL (nth_v 3 p))))
  | 9 => let st := ident_run (ID (gS (nth_v 0 p)) (gS (nth_v 1 p))) (map gEv (gL (nth_v 2 p))) in
         L [vS (i_nick st); vS (i_prefix st)]
  | _ => L []
  end.
