(* C12/Visible.v — under the safe-cut predicate the visible text of the wrapped
   chunks (each stripped on its own, as an IRC client shows them) is the
   visible text of the reply. *)
From Coq Require Import List NArith ZArith Bool Lia ZifyBool Arith.
Import ListNotations.
Require Import Base.Wire Base.PyStr C12.Model C12.Wrap C12.Total C12.Chars C12.Parser C12.Format.
Open Scope N_scope.

Definition flush (st : vst) : str := match st with VP | VP0 => [44] | _ => [] end.

Lemma vis_nil st : vis st [] = flush st.
Proof. destruct st; reflexivity. Qed.

(* in front of a character that is neither a digit nor a comma every state falls back to normal *)
Lemma vis_safe st b : safe_head b = true -> vis st b = flush st ++ vis VN b.
Proof.
  destruct b as [|x b]; [intros _; rewrite !vis_nil, app_nil_r; reflexivity|].
  cbn [safe_head]. unfold is_dc. intro H. apply negb_true_iff in H. apply orb_false_iff in H as [Hd Hc].
  destruct st; cbn [vis flush app]; rewrite ?Hd, ?Hc; reflexivity.
Qed.

Lemma vis_app b : safe_head b = true -> forall a st, vis st (a ++ b) = vis st a ++ vis VN b.
Proof.
  intros Hb a. induction a as [|c a IH]; intro st.
  - cbn [app]. rewrite vis_nil. apply vis_safe. exact Hb.
  - cbn [app]. destruct st; cbn [vis];
      repeat match goal with |- context [if ?x then _ else _] => destruct x end;
      rewrite ?IH; reflexivity.
Qed.

Lemma visible_app a b : safe_head b = true -> visible (a ++ b) = visible a ++ visible b.
Proof. intro H. unfold visible. apply vis_app. exact H. Qed.

(* a re-opened prefix shows nothing *)
Lemma prefix_table : forallb (fun c => match visible (fstart c []) with [] => true | _ => false end) all_ctx = true.
Proof. vm_compute. reflexivity. Qed.

Lemma prefix_invisible c : c16 c = true -> visible (fstart c []) = [].
Proof.
  intro H. pose proof prefix_table as T. rewrite forallb_forall in T. specialize (T c (in_all_ctx c H)).
  destruct (visible (fstart c [])); [reflexivity|discriminate].
Qed.

Lemma visible_fend c p : visible (fend c p) = visible p.
Proof.
  unfold fend. destruct (factive c); [|reflexivity].
  rewrite visible_app by reflexivity. change (visible [15]) with (@nil N). apply app_nil_r.
Qed.

Lemma process_visible : forall todo c ls,
  c16 c = true -> forallb safe_head todo = true ->
  process (Some c) todo = Ok ls -> concat (map visible ls) = concat (map visible todo).
Proof.
  induction todo as [|r rest IH]; intros c ls Hc Hs Hp.
  - cbn [process] in Hp. injection Hp as <-. reflexivity.
  - cbn [forallb] in Hs. apply andb_true_iff in Hs as [Hr Hrest]. cbn [process] in Hp.
    rewrite parse_pg in Hp. destruct (pg fc0 0 (fstart c r)) as [[c1 m1]|] eqn:E; [|discriminate].
    cbn [bind fst] in Hp. destruct (process (Some c1) rest) as [tl|] eqn:Et; [|discriminate].
    cbn [bind] in Hp. injection Hp as <-. cbn [map concat].
    rewrite visible_fend, fstart_app, (visible_app _ r Hr), (prefix_invisible c Hc). cbn [app]. f_equal.
    eapply IH; [|exact Hrest|exact Et]. eapply pg_c16; [exact E|reflexivity].
Qed.

Lemma visible_concat r1 rest :
  Forall nonnil rest -> forallb safe_head rest = true ->
  visible (r1 ++ concat rest) = visible r1 ++ concat (map visible rest).
Proof.
  revert r1. induction rest as [|r2 rest IH]; intros r1 Hn Hs.
  - cbn. rewrite !app_nil_r. reflexivity.
  - inversion Hn as [|? ? H2 Hn']; subst. pose proof Hs as Hs0. cbn [forallb] in Hs. apply andb_true_iff in Hs as [_ Hs'].
    rewrite (visible_app r1 _ (safe_head_concat (r2 :: rest) Hn Hs0)). cbn [concat map]. rewrite (IH r2 Hn' Hs'). reflexivity.
Qed.

(* ---------- (3, second half) the visible text is preserved whenever the cuts are safe ---------- *)
Theorem fmt_visible_text : forall s (n : Z) cF mx ls,
  s <> [] -> munged s = true -> parse s = Ok (cF, mx) -> (Z.of_N mx + 4 <= n)%Z ->
  safe_cuts s n = true -> wrap s n = Ok ls ->
  concat (map visible ls) = visible s.
Proof.
  intros s n cF mx ls Hne Hmu Hparse Hn4 Hsafe Hw.
  unfold safe_cuts, raw_chunks in Hsafe. unfold wrap, wrap_w in Hw.
  rewrite Hparse in Hsafe, Hw. cbn [bind snd] in Hsafe, Hw.
  destruct (byteTextWrap (split_chunks s) (n - Z.of_N mx)) as [raw|e] eqn:Eb; [|discriminate]. cbn [bind] in Hw.
  pose proof (byteTextWrap_nonnil s (n - Z.of_N mx) raw ltac:(lia) Hne Eb) as Hnn.
  pose proof (wrap_munge s _ raw Eb) as Hcat. rewrite (munge_id s Hmu) in Hcat.
  destruct raw as [|r1 rest]; [cbn in Hcat; congruence|].
  inversion Hnn as [|? ? _ Hnrest]; subst.
  cbn [process] in Hw. rewrite parse_pg in Hw. destruct (pg fc0 0 r1) as [[c1 m1]|] eqn:E; [|discriminate].
  cbn [bind fst] in Hw. destruct (process (Some c1) rest) as [tl|] eqn:Et; [|discriminate].
  cbn [bind] in Hw. injection Hw as <-. cbn [map concat].
  rewrite visible_fend. rewrite (process_visible rest c1 tl (pg_c16 _ _ _ _ _ E eq_refl) Hsafe Et).
  symmetry. apply visible_concat; assumption.
Qed.

(* ---------- F14's witnesses: outside the predicate, and the clauses fail there ---------- *)
Require Import C12.Fits.

Theorem chunk_fits_refuted_outside :
  exists s ls, s <> [] /\ munged s = true /\ safe_cuts s 12 = false /\
               wrap s 12 = Ok ls /\ Exists (fun c => 12 < blen c) ls.
Proof.
  exists s_comma. eexists. split; [discriminate|]. split; [vm_compute; reflexivity|].
  split; [vm_compute; reflexivity|]. split; [vm_compute; reflexivity|].
  do 4 apply Exists_cons_tl. apply Exists_cons_hd. vm_compute. reflexivity.
Qed.

Theorem visible_text_refuted_outside :
  exists s ls, s <> [] /\ munged s = true /\ safe_cuts s 16 = false /\
               wrap s 16 = Ok ls /\ concat (map visible ls) <> visible s.
Proof.
  exists s_junction. eexists. split; [discriminate|]. split; [vm_compute; reflexivity|].
  split; [vm_compute; reflexivity|]. split; [vm_compute; reflexivity|]. vm_compute. discriminate.
Qed.

(* non-vacuity: a coloured multi-byte text (colour 0, bold, background) with safe cuts, 6 chunks *)
Definition s_fmt : str :=
  [3; 48] ++ repeat 8364 20 ++ [32; 2] ++ repeat 233 30 ++ [32; 3; 52; 44; 49; 50] ++ repeat 97 40 ++ [32; 15] ++ repeat 98 30.
Example fmt_nonvacuous :
  munged s_fmt = true /\ safe_cuts s_fmt 60 = true /\
  exists ls, wrap s_fmt 60 = Ok ls /\ length ls = 6%nat.
Proof. split; [vm_compute; reflexivity|]. split; [vm_compute; reflexivity|]. eexists. split; vm_compute; reflexivity. Qed.
