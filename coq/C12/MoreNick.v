(* C12/MoreNick.v — `more <nick>` by another user never costs the owner (or the
   other user) a chunk: Misc.more gives the caller copies of the messages, and
   (since the repair of C19.F47) takeMsg delivers an object even if it was sent
   before; the owner's successive `more` outputs are her pending chunks in order
   whatever the other user does in between.  The well-formedness invariant (no
   object queued twice, none already sent) is kept: it is what Misc.more's
   copying maintains, although delivery no longer depends on it. *)
From Coq Require Import List NArith ZArith Bool Lia ZifyBool Arith.
Import ListNotations.
Require Import Base.Wire Base.PyStr C12.Model.
Open Scope N_scope.

Definition ids (l : list pmsg) : list N := map pm_id l.
Definition lines (l : list pmsg) : list str := map pm_line l.

(* ---------- lists without repetition ---------- *)
Lemma NoDup_app_iff {A} (a b : list A) :
  NoDup (a ++ b) <-> NoDup a /\ NoDup b /\ (forall x, In x a -> ~ In x b).
Proof.
  induction a as [|x a IH]; cbn [app].
  - split; [intro H; repeat split; [constructor|exact H|intros x []]|intros (_ & H & _); exact H].
  - rewrite !NoDup_cons_iff, IH, in_app_iff. split.
    + intros (Hx & Ha & Hb & Hd). repeat split; try tauto.
      intros y [->|Hy]; [tauto|apply Hd; exact Hy].
    + intros ((Hx & Ha) & Hb & Hd). repeat split; try tauto.
      * intros [H|H]; [tauto|exact (Hd x (or_introl eq_refl) H)].
      * intros y Hy. apply Hd. right. exact Hy.
Qed.

(* ---------- takeMsg: everything queued is delivered (since the repair of C19.F47 even an object
   that was sent before) ---------- *)
Lemma take_all_all : forall msgs sent, take_all sent msgs = (lines msgs, rev (ids msgs) ++ sent).
Proof.
  induction msgs as [|m r IH]; intro sent; [reflexivity|].
  cbn [take_all]. rewrite IH. cbn [lines ids map rev]. rewrite <- app_assoc. reflexivity.
Qed.

Lemma take_all_ok : forall msgs sent,
  NoDup (ids msgs) -> (forall i, In i (ids msgs) -> ~ In i sent) ->
  take_all sent msgs = (lines msgs, rev (ids msgs) ++ sent).
Proof. intros msgs sent _ _. apply take_all_all. Qed.

(* ---------- the invariant ---------- *)
Definition wf (st : mstate) : Prop :=
  NoDup (ids (ms_owner st)) /\ NoDup (ids (ms_peer st)) /\
  (forall i, In i (ids (ms_owner st)) -> ~ In i (ids (ms_peer st))) /\
  (forall i, In i (ids (ms_owner st)) \/ In i (ids (ms_peer st)) -> ~ In i (ms_sent st) /\ i < ms_next st) /\
  (forall i, In i (ms_sent st) -> i < ms_next st).

Lemma ids_app a b : ids (a ++ b) = ids a ++ ids b.
Proof. apply map_app. Qed.
Lemma ids_rev a : ids (rev a) = rev (ids a).
Proof. apply map_rev. Qed.

Lemma more_p_lines Q number :
  lines (fst (more_p Q number)) = fst (more (lines Q) number) /\
  lines (snd (more_p Q number)) = snd (more (lines Q) number).
Proof.
  unfold more_p, more, lines. cbn [fst snd]. rewrite map_length.
  rewrite map_rev, skipn_map, firstn_map. split; reflexivity.
Qed.

(* popping from a queue whose objects are all unsent: everything popped is delivered *)
Lemma pop_one Q sent number :
  NoDup (ids Q) -> (forall i, In i (ids Q) -> ~ In i sent) ->
  take_all sent (fst (more_p Q number)) =
    (lines (fst (more_p Q number)), rev (ids (fst (more_p Q number))) ++ sent) /\
  NoDup (ids (snd (more_p Q number))) /\
  (forall i, In i (ids (snd (more_p Q number))) -> In i (ids Q) /\ ~ In i (ids (fst (more_p Q number)))) /\
  (forall i, In i (ids (fst (more_p Q number))) -> In i (ids Q)).
Proof.
  intros Hnd Hfresh. unfold more_p. cbn [fst snd].
  set (keep := (length Q - N.to_nat number)%nat).
  pose proof (firstn_skipn keep Q) as Hsplit.
  set (A := firstn keep Q) in *. set (B := skipn keep Q) in *.
  rewrite <- Hsplit, ids_app in Hnd, Hfresh. apply NoDup_app_iff in Hnd as (HA & HB & Hd).
  assert (HinQ : forall i, In i (ids Q) <-> In i (ids A) \/ In i (ids B)).
  { intro i. rewrite <- Hsplit, ids_app, in_app_iff. tauto. }
  split; [apply take_all_ok|split; [exact HA|split]].
  - rewrite ids_rev. apply NoDup_rev. exact HB.
  - intros i Hi. apply Hfresh. rewrite ids_rev in Hi. apply in_rev in Hi. rewrite in_app_iff. tauto.
  - intros i Hi. split; [apply HinQ; tauto|]. rewrite ids_rev. intro Hr. apply in_rev in Hr. exact (Hd i Hi Hr).
  - intros i Hi. rewrite ids_rev in Hi. apply in_rev in Hi. apply HinQ. tauto.
Qed.

(* copying: fresh identities, same texts *)
Lemma copy_msgs_spec : forall L next,
  lines (fst (copy_msgs next L)) = lines L /\ next <= snd (copy_msgs next L) /\
  NoDup (ids (fst (copy_msgs next L))) /\
  (forall i, In i (ids (fst (copy_msgs next L))) -> next <= i < snd (copy_msgs next L)).
Proof.
  induction L as [|m r IH]; intro next; cbn [copy_msgs].
  - cbn. repeat split; [lia|constructor|tauto|tauto].
  - specialize (IH (next + 1)). destruct (copy_msgs (next + 1) r) as [r' n'].
    cbn [fst snd] in *. destruct IH as (Hl & Hn & Hnd & Hr). unfold lines, ids in *. cbn [map pm_id pm_line].
    split; [f_equal; exact Hl|]. split; [lia|]. split.
    + constructor; [intro Hin; specialize (Hr next Hin); lia|exact Hnd].
    + intros i [<-|H]; [lia|specialize (Hr i H); lia].
Qed.

(* ---------- one command ---------- *)
Definition queue_of (st : mstate) (op : mop) : list pmsg :=
  match op with OpOwner | OpPeerNick => ms_owner st | OpPeer => ms_peer st end.

Theorem mstep_delivers : forall number st op,
  wf st ->
  wf (snd (mstep number st op)) /\
  (* everything the command pops reaches the driver, in order: nothing trips the emulatedEcho assert *)
  fst (mstep number st op) = fst (more (lines (queue_of st op)) number) /\
  (* the owner's queue: popped by her own command, untouched by the other user's *)
  lines (ms_owner (snd (mstep number st op))) =
    match op with OpOwner => snd (more (lines (ms_owner st)) number) | _ => lines (ms_owner st) end.
Proof.
  intros number st op (HnO & HnP & Hdis & Hfresh & Hsent).
  destruct op; unfold mstep; cbn [queue_of].
  - (* owner's more *)
    destruct (pop_one (ms_owner st) (ms_sent st) number HnO (fun i Hi => proj1 (Hfresh i (or_introl Hi))))
      as (Ht & Hnd' & Hsub & Hpop).
    destruct (more_p_lines (ms_owner st) number) as [Hl1 Hl2].
    destruct (more_p (ms_owner st) number) as [msgs L'] eqn:E. cbn [fst snd] in *. rewrite Ht. cbn [fst snd ms_owner ms_peer ms_sent ms_next].
    split; [|split; assumption].
    repeat split; cbn [ms_owner ms_peer ms_sent ms_next]; try assumption.
    + intros i Hi. apply Hdis. apply (Hsub i Hi).
    + intros Hin. rewrite in_app_iff in Hin. destruct Hin as [Hin|Hin].
      * rewrite <- in_rev in Hin. destruct H as [H|H]; [exact (proj2 (Hsub i H) Hin)|exact (Hdis i (Hpop i Hin) H)].
      * destruct H as [H|H]; [exact (proj1 (Hfresh i (or_introl (proj1 (Hsub i H)))) Hin)|exact (proj1 (Hfresh i (or_intror H)) Hin)].
    + destruct H as [H|H]; [exact (proj2 (Hfresh i (or_introl (proj1 (Hsub i H)))))|exact (proj2 (Hfresh i (or_intror H)))].
    + intros i Hin. rewrite in_app_iff in Hin. destruct Hin as [Hin|Hin]; [|exact (Hsent i Hin)].
      rewrite <- in_rev in Hin. exact (proj2 (Hfresh i (or_introl (Hpop i Hin)))).
  - (* the other user's more <nick> *)
    destruct (copy_msgs_spec (ms_owner st) (ms_next st)) as (Hcl & Hcn & Hcnd & Hcr).
    destruct (copy_msgs (ms_next st) (ms_owner st)) as [cp n'] eqn:Ec. cbn [fst snd] in *.
    assert (Hcf : forall i, In i (ids cp) -> ~ In i (ms_sent st)).
    { intros i Hi Hs. specialize (Hcr i Hi). specialize (Hsent i Hs). lia. }
    destruct (pop_one cp (ms_sent st) number Hcnd Hcf) as (Ht & Hnd' & Hsub & Hpop).
    destruct (more_p_lines cp number) as [Hl1 Hl2]. rewrite Hcl in Hl1, Hl2.
    destruct (more_p cp number) as [msgs P'] eqn:E. cbn [fst snd] in *. rewrite Ht. cbn [fst snd ms_owner ms_peer ms_sent ms_next].
    split; [|split; [exact Hl1|reflexivity]].
    repeat split; cbn [ms_owner ms_peer ms_sent ms_next]; try assumption.
    + intros i Hi Hp. specialize (Hcr i (proj1 (Hsub i Hp))). specialize (Hfresh i (or_introl Hi)). lia.
    + intros Hin. rewrite in_app_iff in Hin. destruct Hin as [Hin|Hin].
      * rewrite <- in_rev in Hin. destruct H as [H|H]; [|exact (proj2 (Hsub i H) Hin)].
        specialize (Hcr i (Hpop i Hin)). specialize (Hfresh i (or_introl H)). lia.
      * destruct H as [H|H]; [exact (proj1 (Hfresh i (or_introl H)) Hin)|exact (Hcf i (proj1 (Hsub i H)) Hin)].
    + destruct H as [H|H]; [specialize (Hfresh i (or_introl H)); lia|specialize (Hcr i (proj1 (Hsub i H))); lia].
    + intros i Hin. rewrite in_app_iff in Hin. destruct Hin as [Hin|Hin]; [|specialize (Hsent i Hin); lia].
      rewrite <- in_rev in Hin. specialize (Hcr i (Hpop i Hin)). lia.
  - (* the other user's more *)
    destruct (pop_one (ms_peer st) (ms_sent st) number HnP (fun i Hi => proj1 (Hfresh i (or_intror Hi))))
      as (Ht & Hnd' & Hsub & Hpop).
    destruct (more_p_lines (ms_peer st) number) as [Hl1 Hl2].
    destruct (more_p (ms_peer st) number) as [msgs P'] eqn:E. cbn [fst snd] in *. rewrite Ht. cbn [fst snd ms_owner ms_peer ms_sent ms_next].
    split; [|split; [exact Hl1|reflexivity]].
    repeat split; cbn [ms_owner ms_peer ms_sent ms_next]; try assumption.
    + intros i Hi Hp. exact (Hdis i Hi (proj1 (Hsub i Hp))).
    + intros Hin. rewrite in_app_iff in Hin. destruct Hin as [Hin|Hin].
      * rewrite <- in_rev in Hin. destruct H as [H|H]; [exact (Hdis i H (Hpop i Hin))|exact (proj2 (Hsub i H) Hin)].
      * destruct H as [H|H]; [exact (proj1 (Hfresh i (or_introl H)) Hin)|exact (proj1 (Hfresh i (or_intror (proj1 (Hsub i H)))) Hin)].
    + destruct H as [H|H]; [exact (proj2 (Hfresh i (or_introl H)))|exact (proj2 (Hfresh i (or_intror (proj1 (Hsub i H)))))].
    + intros i Hin. rewrite in_app_iff in Hin. destruct Hin as [Hin|Hin]; [|exact (Hsent i Hin)].
      rewrite <- in_rev in Hin. exact (proj2 (Hfresh i (or_intror (Hpop i Hin)))).
Qed.

(* ---------- a whole conversation ---------- *)
Require Import C12.More.

Fixpoint owner_out (ops : list mop) (outs : list (list str)) : list str :=
  match ops, outs with
  | OpOwner :: r, o :: os => o ++ owner_out r os
  | _ :: r, _ :: os => owner_out r os
  | _, _ => []
  end.

Theorem mrun_owner : forall number ops st,
  wf st ->
  wf (snd (mrun number st ops)) /\
  owner_out ops (fst (mrun number st ops)) ++ rev (lines (ms_owner (snd (mrun number st ops))))
  = rev (lines (ms_owner st)).
Proof.
  intros number ops. induction ops as [|op r IH]; intros st Hwf; [split; [exact Hwf|reflexivity]|].
  cbn [mrun]. destruct (mstep_delivers number st op Hwf) as (Hwf1 & Hout & Hown).
  destruct (mstep number st op) as [out st1]. cbn [fst snd] in *.
  destruct (IH st1 Hwf1) as [Hwf2 Hseq]. destruct (mrun number st1 r) as [outs st2]. cbn [fst snd] in *.
  split; [exact Hwf2|].
  destruct op; cbn [owner_out queue_of] in *; try (rewrite Hseq, Hown; reflexivity).
  rewrite <- app_assoc, Hseq, Hown, Hout. apply more_split.
Qed.

Lemma number_from_spec l : forall i,
  lines (number_from i l) = l /\ NoDup (ids (number_from i l)) /\
  (forall j, In j (ids (number_from i l)) -> i <= j < i + N.of_nat (length l)).
Proof.
  induction l as [|x l IH]; intro i; cbn [number_from].
  - split; [reflexivity|split; [constructor|intros j []]].
  - destruct (IH (i + 1)) as (Hl & Hnd & Hr). unfold lines, ids in *. cbn [map pm_id pm_line length].
    split; [f_equal; exact Hl|]. split.
    + constructor; [intro Hin; specialize (Hr i Hin); lia|exact Hnd].
    + intros j [<-|Hj]; [lia|specialize (Hr j Hj); lia].
Qed.

Lemma wf_init l : wf (MS (number_from 0 l) [] [] (N.of_nat (length (number_from 0 l)))).
Proof.
  destruct (number_from_spec l 0) as (Hl & Hnd & Hr).
  assert (Hlen : length (number_from 0 l) = length l).
  { rewrite <- Hl at 2. unfold lines. rewrite map_length. reflexivity. }
  unfold wf. cbn [ms_owner ms_peer ms_sent ms_next ids map]. rewrite Hlen.
  repeat split; try tauto; try constructor; try exact Hnd.
  - destruct H as [H|[]]. specialize (Hr i H). lia.
  - intros i [].
Qed.

(* after a reply, whatever the other user does with `more <nick>` / `more` in between, the owner's
   successive `more` outputs followed by what is still pending for her are exactly her pending chunks,
   in order *)
Theorem more_nick_sequence : forall k s sent L number ops,
  reply k s = Ok (sent, L) ->
  let st0 := MS (number_from 0 L) [] [] (N.of_nat (length (number_from 0 L))) in
  owner_out ops (fst (mrun number st0 ops)) ++ rev (lines (ms_owner (snd (mrun number st0 ops)))) = rev L.
Proof.
  intros k s sent L number ops _ st0. destruct (mrun_owner number ops st0 (wf_init L)) as [_ H].
  rewrite H. unfold st0. cbn [ms_owner]. rewrite (proj1 (number_from_spec L 0)). reflexivity.
Qed.
