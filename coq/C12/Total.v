(* C12/Total.v — since the F40 repair FormatParser never raises: parse is total,
   and ircutils.wrap can only fail by str.encode (lone surrogate) or by the
   byteTextWrap loop not terminating (size smaller than a character). *)
From Coq Require Import List NArith ZArith Bool Lia ZifyBool Arith.
Import ListNotations.
Require Import Base.Wire Base.PyStr C12.Model C12.Wrap.
Open Scope N_scope.

Lemma getInt_ok : forall s i b,
  exists o s', getInt i b s = Ok (o, s') /\ (length s' <= length s)%nat.
Proof.
  induction s as [|c s IH]; intros i b; cbn [getInt].
  - eexists. eexists. split; [reflexivity|lia].
  - destruct (digit_val c) as [v|].
    + destruct (gen.T12.COLOR_LIMIT <=? i * 10 + v).
      * eexists. eexists. split; [reflexivity|lia].
      * destruct (IH (i * 10 + v) true) as (o & s' & E & L). exists o, s'. split; [exact E|cbn [length]; lia].
    + eexists. eexists. split; [reflexivity|lia].
Qed.

Lemma getColor_ok : forall c s,
  exists c' s', getColor c s = Ok (c', s') /\ (length s' <= length s)%nat.
Proof.
  intros c s. unfold getColor. destruct (getInt_ok s 0 false) as (o & s1 & E & L). rewrite E. cbn [bind fst snd].
  destruct s1 as [|x s2].
  - eexists. eexists. split; [reflexivity|cbn; lia].
  - destruct (x =? 44).
    + destruct (getInt_ok s2 0 false) as (o2 & s3 & E2 & L2). rewrite E2. cbn [bind fst snd].
      eexists. eexists. split; [reflexivity|cbn [length] in L; lia].
    + eexists. eexists. split; [reflexivity|exact L].
Qed.

Lemma parse_go_total fuel : forall c mx s,
  (length s < fuel)%nat -> exists r, parse_go fuel c mx s = Ok r.
Proof.
  induction fuel as [|f IH]; intros c mx s Hl; [lia|].
  destruct s as [|ch s]; [eexists; reflexivity|]. cbn [length] in Hl. cbn [parse_go].
  destruct (ch =? 2); [apply IH; lia|].
  destruct (ch =? 22); [apply IH; lia|].
  destruct (ch =? 31); [apply IH; lia|].
  destruct (ch =? 15); [apply IH; lia|].
  destruct (ch =? 3); [|apply IH; lia].
  destruct (getColor_ok c s) as (c' & s' & E & L). rewrite E. cbn [bind fst snd]. apply IH. lia.
Qed.

Theorem parse_total : forall s, exists r, parse s = Ok r.
Proof. intro s. unfold parse. apply parse_go_total. lia. Qed.

Lemma process_total : forall chunks ctx, exists ls, process ctx chunks = Ok ls.
Proof.
  induction chunks as [|ch rest IH]; intro ctx; [eexists; reflexivity|]. cbn [process].
  destruct (parse_total (match ctx with Some c => fstart c ch | None => ch end)) as [r E]. rewrite E. cbn [bind].
  destruct (IH (Some (fst r))) as [tl Et]. rewrite Et. cbn [bind]. eexists. reflexivity.
Qed.

(* since byteTextWrap always makes progress the loop returns for any size: wrap can only fail by str.encode *)
Theorem wrap_raises_only : forall s n e, wrap s n = Raise e -> e = UnicodeError.
Proof.
  intros s n e H. unfold wrap, wrap_w in H.
  destruct (parse_total s) as [pm E]. rewrite E in H. cbn [bind] in H.
  destruct (existsb has_surrogate (split_chunks s)) eqn:Es.
  - unfold byteTextWrap in H. rewrite Es in H. cbn [bind] in H. injection H as <-. reflexivity.
  - destruct (wrap_total (split_chunks s) (n - Z.of_N (snd pm)) Es) as [ls El].
    rewrite El in H. cbn [bind] in H. destruct (process_total ls None) as [r Ep]. rewrite Ep in H. discriminate.
Qed.

(* the old F40 witness: \x03 followed by superscript two is now ordinary text *)
Example parse_superscript : parse [3; 178; 97] = Ok (fc0, 0).
Proof. reflexivity. Qed.
