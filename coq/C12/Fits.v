(* C12/Fits.v — byte accounting of reply(): the allowedLength formula, the
   "(XX more messages)" reserve, FormatContext.size, cuts inside colour sequences.
   After the repairs F12/F13/F41/F42 the first and third clause hold in full,
   the second up to 99 pending messages; the colour/digit junction (F14) is
   still refuted. *)
From Coq Require Import List NArith ZArith Bool Lia ZifyBool Arith.
Import ListNotations.
Require Import Base.Wire Base.PyStr C12.Model C12.Wrap C12.More.
Open Scope N_scope.

(* ---------- constants of the regenerated table the arithmetic relies on ---------- *)
Lemma T_line_max : gen.T12.LINE_MAX = 512. Proof. reflexivity. Qed.
Lemma T_fixed : gen.T12.FIXED_OVERHEAD = 14. Proof. reflexivity. Qed.
Lemma T_nicksep : blen gen.T12.NICK_SEP = 2 /\ slen gen.T12.NICK_SEP = 2. Proof. split; reflexivity. Qed.
Lemma T_more : blen gen.T12.MORE_ONE = 12 /\ blen gen.T12.MORE_MANY = 13. Proof. split; reflexivity. Qed.

(* ---------- ASCII strings: characters = bytes ---------- *)
Definition ascii (s : str) : bool := forallb (fun c => c <? 128) s.

Lemma ascii_blen s : ascii s = true -> blen s = slen s.
Proof.
  unfold slen. induction s as [|c s IH]; [reflexivity|]. cbn [ascii forallb blen length].
  intro H. apply andb_true_iff in H as [Hc Hs]. rewrite (IH Hs). unfold clen. rewrite Hc. lia.
Qed.

(* ---------- strip never makes a string longer ---------- *)
Lemma blen_rev s : blen (rev s) = blen s.
Proof. induction s as [|c s IH]; [reflexivity|]. cbn [rev blen]. rewrite blen_app, IH. cbn [blen]. lia. Qed.

Lemma blen_lstrip ch s : blen (lstrip ch s) <= blen s.
Proof. induction s as [|c s IH]; cbn [lstrip blen]; [lia|]. destruct (mem c ch); cbn [blen]; lia. Qed.

Lemma blen_rstrip ch s : blen (rstrip ch s) <= blen s.
Proof.
  unfold rstrip. rewrite blen_rev. rewrite <- (blen_rev s).
  generalize (rev s) as r. induction r as [|c r IH]; cbn [blen]; [lia|].
  destruct (mem c ch); cbn [blen]; lia.
Qed.

Lemma blen_strip ch s : blen (strip ch s) <= blen s.
Proof. unfold strip. pose proof (blen_rstrip ch (lstrip ch s)). pose proof (blen_lstrip ch s). lia. Qed.

(* ---------- clause 1: the allowedLength formula (full since the F41/F42 and F43 repairs) ---------- *)
(* For every reply configuration -- prefix/target/nick of any code points, channel or query,
   private=/to=/notice= keywords, reply.inPrivate/withNotice -- a payload within the room reply()
   computes gives a relayed line within 512 bytes: reply() now asks _makeReply() for the recipient
   and reserves the "nick: " prefix for `to or msg.nick`. *)
Lemma allowed_length_room k :
  allowed_length k = if c_length k =? 0 then line_room k else Z.of_N (c_length k).
Proof. reflexivity. Qed.

Lemma blen_cmd_of k : blen (cmd_of k) <= 7.
Proof. unfold cmd_of. destruct (_ || _ || _); [change (blen s_notice) with 6|change (blen s_privmsg) with 7]; lia. Qed.

Lemma blen_nick_prefix k :
  blen (nick_prefix k) <=
  (if c_prefixNick k then blen (match c_to k with Some t => t | None => c_nick k end) + 2 else 0).
Proof.
  unfold nick_prefix. destruct T_nicksep as [Hns _].
  destruct (c_prefixNick k); cbn [andb]; [|cbn; lia].
  destruct (negb (eff_private k) && target_public k && negb _); [rewrite blen_app, Hns; lia|cbn; lia].
Qed.

Theorem line_fits_room : forall k p,
  nonempty (strip [1] p) = true -> (Z.of_N (blen p) <= line_room k)%Z ->
  line_fits k (makeReply k p) = true.
Proof.
  intros k p Hne Hp. unfold line_room, reserve_recipient in Hp.
  pose proof (blen_cmd_of k) as Hc. pose proof (blen_nick_prefix k) as Hn.
  destruct T_nicksep as [Hns1 Hns2]. rewrite Hns2, T_line_max, T_fixed in Hp.
  pose proof (blen_strip [1] p) as Hst.
  remember (strip [1] p) as sp eqn:Es.
  destruct sp as [|c0 sp']; [discriminate|].
  unfold line_fits, relayed, makeReply. rewrite <- Es. rewrite T_line_max. apply N.leb_le.
  repeat (rewrite ?blen_app; cbn [blen]).
  change (clen 32) with 1; change (clen 58) with 1; change (clen 13) with 1; change (clen 10) with 1.
  cbn [blen] in Hst. destruct (c_prefixNick k); lia.
Qed.

(* (c_length = 0: the bot computes the budget itself; a configured length is the administrator's choice) *)
Theorem line_fits_full : forall k p,
  c_length k = 0 -> nonempty (strip [1] p) = true ->
  (Z.of_N (blen p) <= allowed_length k)%Z ->
  line_fits k (makeReply k p) = true.
Proof.
  intros k p Hlen Hne Hp. rewrite allowed_length_room, Hlen in Hp. cbn [N.eqb] in Hp.
  apply line_fits_room; assumption.
Qed.

(* the old refuting environments -- F41 (#é), F42 (query from alice to b), F43 (private=True given in #c
   by alice with withNickPrefix off; to=bobbybobby given in #c by a) -- with a payload that fills the room *)
Definition k_nonascii : cfg :=
  Cfg [98; 33; 117; 64; 104] [35; 233] [97] true false true true 0 50 1 false false None false false false gen.T12.MORE_ONE gen.T12.MORE_MANY.
Definition k_private : cfg :=
  Cfg [98; 33; 117; 64; 104] [98] [97; 108; 105; 99; 101] false false false true 0 50 1 false false None false false false gen.T12.MORE_ONE gen.T12.MORE_MANY.
Definition k_private_chan : cfg :=
  Cfg [98; 33; 117; 64; 104] [35; 99] [97; 108; 105; 99; 101] true false true true 0 50 1
      true false None false false false gen.T12.MORE_ONE gen.T12.MORE_MANY.
Definition k_to_nick : cfg :=
  Cfg [98; 33; 117; 64; 104] [35; 99] [97] true true true true 0 50 1
      false false (Some [98; 111; 98; 98; 121; 98; 111; 98; 98; 121]) false false false gen.T12.MORE_ONE gen.T12.MORE_MANY.
Definition room_payload (k : cfg) : str := repeat 121 (Z.to_nat (line_room k)).

Example line_fits_nonvacuous :
  forallb (fun k => (0 <? line_room k)%Z && (Z.of_N (blen (room_payload k)) =? line_room k)%Z &&
                    line_fits k (makeReply k (room_payload k)))
          [k_nonascii; k_private; k_private_chan; k_to_nick] = true.
Proof. vm_compute. reflexivity. Qed.

(* ---------- clause 2: the "(XX more messages)" reserve ---------- *)
(* Full statement: forall k n >= 1, blen (suffix k n n) <= more_reserve k.  Since the repairs of F12 and
   F45 the reserve is the byte length of the longer of '(XX <more message>)' / '(XX <more messages>)' in
   the bot's language plus the space and the two bold characters: it covers the suffix for every pair of
   translations and every count the two-character 'XX' provides for, 1..99; a three-digit count is still
   one byte over. *)
Lemma dec_table : forallb (fun n => blen (dec n) <=? 2) (map N.of_nat (seq 1 99)) = true.
Proof. vm_compute. reflexivity. Qed.

Lemma dec_two n : 1 <= n <= 99 -> blen (dec n) <= 2.
Proof.
  intro Hn. pose proof dec_table as H. rewrite forallb_forall in H.
  assert (Hin : In n (map N.of_nat (seq 1 99))).
  { apply in_map_iff. exists (N.to_nat n). split; [lia|]. apply in_seq. lia. }
  specialize (H n Hin). apply N.leb_le in H. exact H.
Qed.

Theorem suffix_reserve_on_domain : forall k n, 1 <= n <= 99 -> blen (suffix k n n) <= more_reserve k.
Proof.
  intros k n Hn. pose proof (dec_two n Hn) as Hd. unfold suffix, more_reserve.
  destruct (n =? 1); repeat (rewrite ?blen_app; cbn [blen]);
    change (clen 32) with 1; change (clen 2) with 1; change (clen 40) with 1; change (clen 41) with 1;
    change (clen 88) with 1; lia.
Qed.

Definition k_english : cfg :=
  Cfg [98; 33; 117; 64; 104] [35; 99] [97] true true true true 0 50 1 false false None false false false
      gen.T12.MORE_ONE gen.T12.MORE_MANY.

Theorem suffix_reserve_refuted : exists k n, 99 < n /\ more_reserve k < blen (suffix k n n).
Proof. exists k_english, 100. split; [lia|]. vm_compute. reflexivity. Qed.

(* the two shipped translations that used to overflow: French (a 2-byte letter), Finnish (the template
   '(XX viestiä jatkoa)' is shorter than the plural really used) *)
Example suffix_reserve_locales :
  let fr := Cfg [] [] [] true true true true 0 50 1 false false None false false false
              [109; 101; 115; 115; 97; 103; 101; 32; 115; 117; 112; 112; 108; 233; 109; 101; 110; 116; 97; 105; 114; 101]
              [109; 101; 115; 115; 97; 103; 101; 115; 32; 115; 117; 112; 112; 108; 233; 109; 101; 110; 116; 97; 105; 114; 101; 115] in
  blen (suffix fr 13 13) = 33 /\ more_reserve fr = 33.
Proof. cbv zeta. split; reflexivity. Qed.

(* ---------- clause 3: FormatContext.size covers what start() and end() add (full since F13) ---------- *)
Definition small (o : option N) : Prop := match o with Some n => n < 100 | None => True end.

Lemma str2_len n : n < 100 -> 1 <= blen (str2 n) <= 2.
Proof.
  intro H. unfold str2. destruct (n <? 10) eqn:E; cbn [blen].
  - assert (clen (48 + n) = 1) as -> by (unfold clen; destruct (48 + n <? 128) eqn:E2; [reflexivity|lia]). lia.
  - assert (n / 10 < 10) by (apply N.div_lt_upper_bound; lia).
    pose proof (N.mod_upper_bound n 10).
    assert (clen (48 + n / 10) = 1) as -> by (unfold clen; destruct (48 + n / 10 <? 128) eqn:E2; [reflexivity|lia]).
    assert (clen (48 + n mod 10) = 1) as -> by (unfold clen; destruct (48 + n mod 10 <? 128) eqn:E2; [reflexivity|lia]). lia.
Qed.

Lemma zfill2_len n : n < 100 -> blen (zfill2 n) = 2.
Proof.
  intro H. unfold zfill2. destruct (n <? 10) eqn:E.
  - cbn [blen]. assert (clen (48 + n) = 1) as -> by (unfold clen; destruct (48 + n <? 128) eqn:E2; [reflexivity|lia]). reflexivity.
  - pose proof (str2_len n H). unfold str2 in *. rewrite E in *. cbn [blen] in *.
    pose proof (clen_bounds (48 + n / 10)). pose proof (clen_bounds (48 + n mod 10)). lia.
Qed.

Theorem context_size_covers : forall c s,
  small (fg c) -> small (bg c) -> blen (fend c (fstart c s)) <= blen s + fsize c.
Proof.
  intros [f b bo re ul] s Hf Hb. cbn [fg bg] in Hf, Hb.
  unfold fend, factive, fstart, fsize, isset. cbn [fg bg fbold frev ful].
  change gen.T12.SIZE_BOTH with 6. change gen.T12.SIZE_ONE with 3.
  destruct f as [f|], b as [b|]; cbn [small] in Hf, Hb;
    try (pose proof (zfill2_len f Hf)); try (pose proof (zfill2_len b Hb)); try (pose proof (str2_len f Hf));
    destruct bo, re, ul; cbn [b2n truthy orb];
    repeat match goal with |- context [negb (?x =? 0)] => destruct (x =? 0) end; cbn [negb orb];
    match goal with |- _ <= _ + ?x => let v := eval vm_compute in x in change x with v end;
    repeat (rewrite ?blen_app; cbn [blen]);
    change (clen 2) with 1; change (clen 3) with 1; change (clen 15) with 1; change (clen 22) with 1;
    change (clen 31) with 1; change (clen 44) with 1; change (clen 48) with 1; lia.
Qed.

Example context_size_colour0 :
  let c := FC (Some 0) None false false false in
  fsize c = 5 /\ blen (fend c (fstart c [97])) = 4.
Proof. cbv zeta. split; reflexivity. Qed.

(* ---------- clause 4: every chunk of ircutils.wrap fits its length ---------- *)
(* Full statement: forall s n ls, wrap s n = Ok ls -> Forall (fun c => blen c <= n) ls.
   Colour 0 no longer refutes it (F13 repaired); it is still refuted when a chunk that
   starts with ",digit" is re-opened after a colour prefix (F14, left as a known finding):
   the re-parsed context gains a background the size estimate never saw. *)
Definition s_comma : str :=                     (* \x034aaaaaaa ,5bbbbbb ccccccc *)
  3 :: 52 :: repeat 97 7 ++ 32 :: 44 :: 53 :: repeat 98 6 ++ 32 :: repeat 99 7.

Theorem chunk_fits_refuted :
  exists s ls, wrap s 12 = Ok ls /\ Exists (fun c => 12 < blen c) ls.
Proof.
  exists s_comma. eexists. split; [vm_compute; reflexivity|].
  do 4 apply Exists_cons_tl. apply Exists_cons_hd. vm_compute. reflexivity.
Qed.

(* the old colour-0 witness now fits *)
Definition s_color0 : str := 3 :: 48 :: repeat 97 30 ++ 32 :: repeat 98 30.     (* \x030 a*30 ' ' b*30 *)
Example chunk_fits_colour0 :
  exists ls, wrap s_color0 32 = Ok ls /\ forallb (fun c => blen c <=? 32) ls = true.
Proof. eexists. split; vm_compute; reflexivity. Qed.

(* ---------- clause 5: the visible text is unchanged ---------- *)
(* Full statement: forall s n ls, wrap s n = Ok ls -> concat (map visible ls) = visible (munge s).
   Refuted when an unbreakable word is cut inside \x03NN (F14). *)
Definition s_junction : str := repeat 97 10 ++ [3; 49; 50; 98; 32; 99].        (* a*10 \x0312 b ' ' c *)

Theorem visible_text_refuted :
  exists s ls, wrap s 16 = Ok ls /\ concat (map visible ls) <> visible (munge s).
Proof. exists s_junction. eexists. split; [vm_compute; reflexivity|]. vm_compute. discriminate. Qed.
