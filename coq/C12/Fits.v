(* C12/Fits.v — byte accounting of reply(): the allowedLength formula, the
   "(XX more messages)" reserve, colour 0, cuts inside colour sequences.
   Each clause: proved on its decidable domain, refuted by a witness outside. *)
From Coq Require Import List NArith ZArith Bool Lia ZifyBool Arith.
Import ListNotations.
Require Import Base.Wire Base.PyStr C12.Model C12.Wrap C12.More.
Open Scope N_scope.

(* ---------- constants of the regenerated table the arithmetic relies on ---------- *)
Lemma T_line_max : gen.T12.LINE_MAX = 512. Proof. reflexivity. Qed.
Lemma T_fixed : gen.T12.FIXED_OVERHEAD = 14. Proof. reflexivity. Qed.
Lemma T_nicksep : blen gen.T12.NICK_SEP = 2 /\ slen gen.T12.NICK_SEP = 2. Proof. split; reflexivity. Qed.
Lemma T_reserve : gen.T12.MORE_RESERVE = 19. Proof. reflexivity. Qed.
Lemma T_more : blen gen.T12.MORE_ONE = 12 /\ blen gen.T12.MORE_MANY = 13. Proof. split; reflexivity. Qed.

(* ---------- ASCII strings: characters = bytes ---------- *)
Definition ascii (s : str) : bool := forallb (fun c => c <? 128) s.

Lemma ascii_blen s : ascii s = true -> blen s = slen s.
Proof.
  unfold slen. induction s as [|c s IH]; [reflexivity|]. cbn [ascii forallb blen length].
  intro H. apply andb_true_iff in H as [Hc Hs]. rewrite (IH Hs). unfold clen. rewrite Hc. lia.
Qed.

(* ---------- strip never makes a string longer ---------- *)
Lemma blen_rev s : blen (rev s) = blen s.
Proof. induction s as [|c s IH]; [reflexivity|]. cbn [rev blen]. rewrite blen_app, IH. cbn [blen]. lia. Qed.

Lemma blen_lstrip ch s : blen (lstrip ch s) <= blen s.
Proof. induction s as [|c s IH]; cbn [lstrip blen]; [lia|]. destruct (mem c ch); cbn [blen]; lia. Qed.

Lemma blen_rstrip ch s : blen (rstrip ch s) <= blen s.
Proof.
  unfold rstrip. rewrite blen_rev. rewrite <- (blen_rev s).
  generalize (rev s) as r. induction r as [|c r IH]; cbn [blen]; [lia|].
  destruct (mem c ch); cbn [blen]; lia.
Qed.

Lemma blen_strip ch s : blen (strip ch s) <= blen s.
Proof. unfold strip. pose proof (blen_rstrip ch (lstrip ch s)). pose proof (blen_lstrip ch s). lia. Qed.

(* ---------- clause 1: the allowedLength formula ---------- *)
(* Full statement: forall k p, blen p <= allowedLength -> the relayed line fits 512 bytes.
   Violated by the pinned code when prefix/target/nick are not ASCII (len() counts
   characters: F41) and in a private query whose sender nick is longer than what was
   reserved for msg.args[0] (F42). *)
Definition cmd_of (k : cfg) : str := if negb (c_public k) && c_noticePriv k then s_notice else s_privmsg.

Definition env_ok (k : cfg) : bool :=
  ascii (c_prefix k) && ascii (c_arg0 k) && ascii (c_nick k) && (c_length k =? 0) &&
  (c_public k ||
   (blen (c_nick k) + blen (cmd_of k)
    <=? blen (c_arg0 k) + 7 + (if c_prefixNick k then blen (c_nick k) + 2 else 0))).

Theorem line_fits_on_domain : forall k p,
  env_ok k = true -> nonempty (strip [1] p) = true ->
  (Z.of_N (blen p) <= allowed_length k)%Z ->
  line_fits k (makeReply k p) = true.
Proof.
  intros k p He Hne Hp. unfold env_ok in He.
  repeat (apply andb_true_iff in He as [He ?]).
  rename H into Hpriv, H0 into Hlen, H1 into Hn, H2 into Ha, He into Hpre.
  apply N.eqb_eq in Hlen.
  unfold allowed_length in Hp. rewrite Hlen in Hp. cbn [N.eqb] in Hp.
  rewrite <- (ascii_blen _ Hpre), <- (ascii_blen _ Ha), <- (ascii_blen _ Hn) in Hp.
  destruct T_nicksep as [Hns1 Hns2]. rewrite Hns2, T_line_max, T_fixed in Hp.
  pose proof (blen_strip [1] p) as Hst.
  remember (strip [1] p) as sp eqn:Es.
  destruct sp as [|c0 sp']; [discriminate|].
  unfold line_fits, relayed, makeReply. rewrite <- Es. rewrite T_line_max. apply N.leb_le.
  unfold cmd_of in *.
  destruct (c_public k), (c_prefixNick k), (c_noticePriv k);
    cbn [andb negb orb] in *;
    try (apply N.leb_le in Hpriv);
    repeat (rewrite ?blen_app; cbn [blen]); rewrite ?blen_app, ?Hns1;
    change (blen s_privmsg) with 7 in *; change (blen s_notice) with 6 in *;
    change (clen 32) with 1; change (clen 58) with 1; change (clen 13) with 1; change (clen 10) with 1;
    cbn [blen] in Hst; lia.
Qed.

Definition k_nonascii : cfg :=
  Cfg [98; 33; 117; 64; 104] [35; 233] [97] true false true true 0 50 1.      (* b!u@h, #é, a *)
Definition k_private : cfg :=
  Cfg [98; 33; 117; 64; 104] [98] [97; 108; 105; 99; 101] false false false true 0 50 1.  (* query from alice to b *)

Theorem line_fits_refuted :
  (exists k p, env_ok k = false /\ c_public k = true /\ nonempty (strip [1] p) = true /\
               (Z.of_N (blen p) <= allowed_length k)%Z /\ line_fits k (makeReply k p) = false) /\
  (exists k p, env_ok k = false /\ c_public k = false /\ nonempty (strip [1] p) = true /\
               (Z.of_N (blen p) <= allowed_length k)%Z /\ line_fits k (makeReply k p) = false).
Proof.
  split.
  - exists k_nonascii, (repeat 121 491). repeat split; try (vm_compute; reflexivity). vm_compute. discriminate.
  - exists k_private, (repeat 121 492). repeat split; try (vm_compute; reflexivity). vm_compute. discriminate.
Qed.

Example line_fits_nonvacuous :
  env_ok (Cfg [98; 33; 117; 64; 104] [35; 99] [97] true true true true 0 50 1) = true /\
  env_ok (Cfg [98; 33; 117; 64; 104] [98] [97] false true true true 0 50 1) = true.
Proof. split; reflexivity. Qed.

(* ---------- clause 2: the "(XX more messages)" reserve ---------- *)
(* Full statement: forall n >= 1, blen (suffix n n) <= MORE_RESERVE.  Holds only for n = 1. *)
Lemma dec_go_len fuel : forall n acc, blen acc < blen (dec_go (S fuel) n acc).
Proof.
  induction fuel as [|f IH]; intros n acc.
  - cbn [dec_go]. assert (Hc : clen (48 + n mod 10) = 1).
    { unfold clen. pose proof (N.mod_upper_bound n 10). destruct (48 + n mod 10 <? 128) eqn:E; [reflexivity|lia]. }
    destruct (n / 10 =? 0); cbn [blen]; rewrite Hc; lia.
  - change (dec_go (S (S f)) n acc) with
      (let acc' := (48 + n mod 10) :: acc in if n / 10 =? 0 then acc' else dec_go (S f) (n / 10) acc').
    cbv zeta. pose proof (clen_bounds (48 + n mod 10)).
    destruct (n / 10 =? 0); [cbn [blen]; lia|].
    specialize (IH (n / 10) ((48 + n mod 10) :: acc)). cbn [blen] in IH. lia.
Qed.

Lemma dec_len n : 1 <= blen (dec n).
Proof. unfold dec. pose proof (dec_go_len (N.size_nat n) n []). cbn [blen] in H. lia. Qed.

Theorem suffix_reserve_on_domain : blen (suffix 1 1) = gen.T12.MORE_RESERVE.
Proof. reflexivity. Qed.

Theorem suffix_reserve_refuted : forall n, 2 <= n -> gen.T12.MORE_RESERVE < blen (suffix n n).
Proof.
  intros n Hn. unfold suffix. assert (E : (n =? 1) = false) by lia. rewrite E.
  rewrite !blen_app. destruct T_more as [_ Hm]. rewrite Hm, T_reserve.
  pose proof (dec_len n). cbn [blen]. change (clen 32) with 1. change (clen 2) with 1.
  change (clen 40) with 1. change (clen 41) with 1. lia.
Qed.

(* ---------- clause 3: every chunk of ircutils.wrap fits its length ---------- *)
(* Full statement: forall s n ls, wrap s n = Ok ls -> Forall (fun c => blen c <= n) ls.
   Refuted by colour 0 (F13): size()/end() test bool(fg), start() tests `is not None`. *)
Definition s_color0 : str := 3 :: 48 :: repeat 97 30 ++ 32 :: repeat 98 30.     (* \x030 a*30 ' ' b*30 *)

Theorem chunk_fits_refuted :
  exists s ls, wrap s 32 = Ok ls /\ Exists (fun c => 32 < blen c) ls.
Proof.
  exists s_color0. eexists. split; [vm_compute; reflexivity|].
  apply Exists_cons_tl. apply Exists_cons_hd. vm_compute. reflexivity.
Qed.

(* ---------- clause 4: the visible text is unchanged ---------- *)
(* Full statement: forall s n ls, wrap s n = Ok ls -> concat (map visible ls) = visible (munge s).
   Refuted when an unbreakable word is cut inside \x03NN (F14). *)
Definition s_junction : str := repeat 97 10 ++ [3; 49; 50; 98; 32; 99].        (* a*10 \x0312 b ' ' c *)

Theorem visible_text_refuted :
  exists s ls, wrap s 16 = Ok ls /\ concat (map visible ls) <> visible (munge s).
Proof. exists s_junction. eexists. split; [vm_compute; reflexivity|]. vm_compute. discriminate. Qed.

(* ---------- clause 5: digits that int() rejects after \x03 lose the whole reply (F40) ---------- *)
Theorem wrap_total_refuted :
  exists s, has_surrogate s = false /\ forall n, wrap s n = Raise ValueError.
Proof. exists [3; 178]. split; [reflexivity|]. intro n. reflexivity. Qed.

(* ---------- end to end: a plain ASCII reply in an ASCII environment overflows ---------- *)
Definition k_plain : cfg :=
  Cfg [98; 33; 117; 64; 104] [35; 99] [97] true true true true 0 50 1.        (* b!u@h, #c, a *)

Theorem message_fits_refuted :
  exists k s sent L, env_ok k = true /\ ascii s = true /\ reply k s = Ok (sent, L) /\
                     Exists (fun line => line_fits k line = false) (sent ++ rev L).
Proof.
  exists k_plain, (repeat 121 1200). eexists. eexists.
  split; [reflexivity|]. split; [vm_compute; reflexivity|]. split; [vm_compute; reflexivity|].
  apply Exists_cons_hd. vm_compute. reflexivity.
Qed.
