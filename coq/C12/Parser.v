(* C12/Parser.v — FormatParser as a function of the remaining text: canonical
   fuel, unfolding equations, splitting the text at a point that is not in
   front of a digit or a comma, monotonicity of max_context_size, colour
   numbers stay below 16, parsing the same text from related contexts. *)
From Coq Require Import List NArith ZArith Bool Lia ZifyBool Arith.
Import ListNotations.
Require Import Base.Wire Base.PyStr C12.Model C12.Wrap C12.Total.
Open Scope N_scope.

(* ---------- pure getInt / getColor ---------- *)
Fixpoint getIntP (i : N) (setI : bool) (s : str) : option N * str :=
  let ret := if setI then Some i else None in
  match s with
  | [] => (ret, [])
  | c :: s' =>
      match digit_val c with
      | None => (ret, s)
      | Some v => let j := i * 10 + v in
                  if gen.T12.COLOR_LIMIT <=? j then (ret, s) else getIntP j true s'
      end
  end.

Lemma getInt_P s : forall i b, getInt i b s = Ok (getIntP i b s).
Proof.
  induction s as [|c s IH]; intros i b; cbn [getInt getIntP]; [reflexivity|].
  destruct (digit_val c) as [v|]; [|reflexivity].
  destruct (gen.T12.COLOR_LIMIT <=? i * 10 + v); [reflexivity|apply IH].
Qed.

Definition getColorP (c : fctx) (s : str) : fctx * str :=
  let r := getIntP 0 false s in
  let c1 := FC (fst r) (bg c) (fbold c) (frev c) (ful c) in
  match snd r with
  | x :: s2 =>
      if x =? 44 then
        let r2 := getIntP 0 false s2 in
        (FC (fg c1) (fst r2) (fbold c1) (frev c1) (ful c1), snd r2)
      else (c1, snd r)
  | [] => (c1, [])
  end.

Lemma getColor_P c s : getColor c s = Ok (getColorP c s).
Proof.
  unfold getColor, getColorP. rewrite getInt_P. cbn [bind].
  destruct (snd (getIntP 0 false s)) as [|x s2]; [reflexivity|].
  destruct (x =? 44); [|reflexivity]. rewrite getInt_P. reflexivity.
Qed.

Lemma getIntP_len s : forall i b, (length (snd (getIntP i b s)) <= length s)%nat.
Proof.
  induction s as [|c s IH]; intros i b; cbn [getIntP]; [cbn; lia|].
  destruct (digit_val c) as [v|]; [|cbn; lia].
  destruct (gen.T12.COLOR_LIMIT <=? i * 10 + v); [cbn; lia|]. specialize (IH (i * 10 + v) true). cbn [length]. lia.
Qed.

Lemma getColorP_len c s : (length (snd (getColorP c s)) <= length s)%nat.
Proof.
  unfold getColorP. pose proof (getIntP_len s 0 false) as H.
  destruct (snd (getIntP 0 false s)) as [|x s2]; [cbn; lia|].
  destruct (x =? 44); [|exact H]. pose proof (getIntP_len s2 0 false). cbn [snd length] in *. lia.
Qed.

(* ---------- canonical fuel ---------- *)
Definition pg (c : fctx) (mx : N) (s : str) : res (fctx * N) := parse_go (S (length s)) c mx s.

Lemma parse_pg s : parse s = pg fc0 0 s.
Proof. reflexivity. Qed.

Definition toggle_b (c : fctx) := FC (fg c) (bg c) (negb (fbold c)) (frev c) (ful c).
Definition toggle_r (c : fctx) := FC (fg c) (bg c) (fbold c) (negb (frev c)) (ful c).
Definition toggle_u (c : fctx) := FC (fg c) (bg c) (fbold c) (frev c) (negb (ful c)).

Lemma pg_nil c mx : pg c mx [] = Ok (c, mx).
Proof. reflexivity. Qed.

Lemma parse_go_S f c mx ch s :
  parse_go (S f) c mx (ch :: s) =
  if ch =? 2 then parse_go f (toggle_b c) (N.max mx (fsize (toggle_b c))) s
  else if ch =? 22 then parse_go f (toggle_r c) (N.max mx (fsize (toggle_r c))) s
  else if ch =? 31 then parse_go f (toggle_u c) (N.max mx (fsize (toggle_u c))) s
  else if ch =? 15 then parse_go f fc0 mx s
  else if ch =? 3 then
    do r <- getColor c s; parse_go f (fst r) (N.max mx (fsize (fst r))) (snd r)
  else parse_go f c mx s.
Proof. reflexivity. Qed.

Lemma parse_go_fuel f1 : forall f2 c mx s,
  (length s < f1)%nat -> (length s < f2)%nat -> parse_go f1 c mx s = parse_go f2 c mx s.
Proof.
  induction f1 as [|f1 IH]; intros f2 c mx s H1 H2; [lia|].
  destruct f2 as [|f2]; [lia|]. destruct s as [|ch s]; [reflexivity|]. cbn [length] in H1, H2.
  rewrite !parse_go_S.
  destruct (ch =? 2); [apply IH; lia|]. destruct (ch =? 22); [apply IH; lia|].
  destruct (ch =? 31); [apply IH; lia|]. destruct (ch =? 15); [apply IH; lia|].
  destruct (ch =? 3); [|apply IH; lia].
  rewrite getColor_P. cbn [bind]. pose proof (getColorP_len c s). apply IH; lia.
Qed.

Lemma pg_cons c mx ch s :
  pg c mx (ch :: s) =
  if ch =? 2 then pg (toggle_b c) (N.max mx (fsize (toggle_b c))) s
  else if ch =? 22 then pg (toggle_r c) (N.max mx (fsize (toggle_r c))) s
  else if ch =? 31 then pg (toggle_u c) (N.max mx (fsize (toggle_u c))) s
  else if ch =? 15 then pg fc0 mx s
  else if ch =? 3 then
    let r := getColorP c s in pg (fst r) (N.max mx (fsize (fst r))) (snd r)
  else pg c mx s.
Proof.
  unfold pg at 1. change (length (ch :: s)) with (S (length s)). rewrite parse_go_S.
  destruct (ch =? 2); [reflexivity|]. destruct (ch =? 22); [reflexivity|].
  destruct (ch =? 31); [reflexivity|]. destruct (ch =? 15); [reflexivity|].
  destruct (ch =? 3); [|reflexivity].
  rewrite getColor_P. cbn [bind]. cbv zeta. unfold pg. pose proof (getColorP_len c s).
  apply parse_go_fuel; lia.
Qed.

(* strong induction on the length of the text *)
Lemma str_ind (Q : str -> Prop) :
  (forall s, (forall t, (length t < length s)%nat -> Q t) -> Q s) -> forall s, Q s.
Proof.
  intros H s. assert (G : forall n t, (length t < n)%nat -> Q t).
  { induction n as [|n IH]; intros t Ht; [lia|]. apply H. intros u Hu. apply IH. lia. }
  apply (G (S (length s))). lia.
Qed.

(* ---------- a cut that is not in front of a digit or a comma ---------- *)
Definition is_dc (x : N) : bool := is_d x || (x =? 44).
Definition safe_head (b : str) : bool := match b with [] => true | x :: _ => negb (is_dc x) end.

Lemma digit_val_is_d x v : digit_val x = Some v -> is_d x = true.
Proof.
  unfold digit_val, is_d, udigit_val. destruct ((48 <=? x) && (x <=? 57)) eqn:E; [|discriminate].
  intro H. injection H as <-. assert (Hx : (x <? 128) = true) by lia. rewrite Hx.
  unfold digit_val. rewrite E. apply negb_true_iff. lia.
Qed.

Lemma safe_head_cons x b : safe_head (x :: b) = true -> digit_val x = None /\ (x =? 44) = false.
Proof.
  cbn [safe_head]. unfold is_dc. intro H. apply negb_true_iff in H. apply orb_false_iff in H as [Hd Hc].
  split; [|exact Hc]. destruct (digit_val x) eqn:E; [|reflexivity]. apply digit_val_is_d in E. congruence.
Qed.

Lemma getIntP_app b : safe_head b = true -> forall a i st,
  getIntP i st (a ++ b) = (fst (getIntP i st a), snd (getIntP i st a) ++ b).
Proof.
  intros Hb a. induction a as [|c a IH]; intros i st.
  - cbn [app getIntP fst snd]. destruct b as [|x b]; [reflexivity|].
    apply safe_head_cons in Hb as [Hd _]. cbn [getIntP]. rewrite Hd. reflexivity.
  - cbn [app getIntP]. destruct (digit_val c) as [v|]; [|reflexivity].
    destruct (gen.T12.COLOR_LIMIT <=? i * 10 + v); [reflexivity|apply IH].
Qed.

Lemma getColorP_app b : safe_head b = true -> forall a c,
  getColorP c (a ++ b) = (fst (getColorP c a), snd (getColorP c a) ++ b).
Proof.
  intros Hb a c. unfold getColorP. rewrite (getIntP_app b Hb). cbn [fst snd].
  destruct (snd (getIntP 0 false a)) as [|x s2].
  - cbn [app]. destruct b as [|y b]; [reflexivity|].
    destruct (safe_head_cons y b Hb) as [_ Hc]. rewrite Hc. reflexivity.
  - cbn [app]. destruct (x =? 44); [|reflexivity]. rewrite (getIntP_app b Hb). reflexivity.
Qed.

Lemma pg_app b : safe_head b = true -> forall a c mx,
  exists c1 m1, pg c mx a = Ok (c1, m1) /\ pg c mx (a ++ b) = pg c1 m1 b.
Proof.
  intros Hb a. induction a as [a IH] using str_ind. intros c mx.
  destruct a as [|ch a]; [exists c, mx; split; reflexivity|].
  cbn [app]. rewrite !pg_cons.
  destruct (ch =? 2); [apply IH; cbn; lia|]. destruct (ch =? 22); [apply IH; cbn; lia|].
  destruct (ch =? 31); [apply IH; cbn; lia|]. destruct (ch =? 15); [apply IH; cbn; lia|].
  destruct (ch =? 3); [|apply IH; cbn; lia].
  cbv zeta. rewrite (getColorP_app b Hb). cbn [fst snd].
  apply IH. pose proof (getColorP_len c a). cbn [length]. lia.
Qed.

(* ---------- max_context_size only grows, and dominates the size of the current context ---------- *)
Lemma pg_mono : forall s c mx c1 m1,
  pg c mx s = Ok (c1, m1) -> mx <= m1 /\ (fsize c <= mx -> fsize c1 <= m1).
Proof.
  induction s as [s IH] using str_ind. intros c mx c1 m1.
  destruct s as [|ch s]; [rewrite pg_nil; intro H; injection H as <- <-; split; [lia|auto]|].
  rewrite pg_cons.
  assert (Step : forall c' t, (length t < length (ch :: s))%nat ->
            pg c' (N.max mx (fsize c')) t = Ok (c1, m1) -> mx <= m1 /\ (fsize c <= mx -> fsize c1 <= m1)).
  { intros c' t Ht H. apply IH in H; [|exact Ht]. destruct H as [H1 H2]. split; [lia|]. intros _. apply H2. lia. }
  destruct (ch =? 2); [apply Step; cbn; lia|]. destruct (ch =? 22); [apply Step; cbn; lia|].
  destruct (ch =? 31); [apply Step; cbn; lia|].
  destruct (ch =? 15).
  { intro H. apply IH in H; [|cbn; lia]. destruct H as [H1 H2]. split; [exact H1|]. intros _. apply H2.
    change (fsize fc0) with 0. lia. }
  destruct (ch =? 3); [|apply IH; cbn; lia].
  cbv zeta. apply Step. pose proof (getColorP_len c s). cbn [length]. lia.
Qed.

(* ---------- colour numbers stay below 16 ---------- *)
Definition small16 (o : option N) : bool := match o with Some n => n <? 16 | None => true end.
Definition c16 (c : fctx) : bool := small16 (fg c) && small16 (bg c).

Lemma getIntP_small s : forall i b, i < 16 -> small16 (fst (getIntP i b s)) = true.
Proof.
  induction s as [|ch s IH]; intros i b Hi; cbn [getIntP].
  - destruct b; cbn; [lia|reflexivity].
  - assert (Hret : small16 (if b then Some i else None) = true) by (destruct b; cbn; [lia|reflexivity]).
    destruct (digit_val ch) as [v|]; [|exact Hret].
    change gen.T12.COLOR_LIMIT with 16.
    destruct (16 <=? i * 10 + v) eqn:E; [exact Hret|apply IH; lia].
Qed.

Lemma getColorP_c16 c s : c16 c = true -> c16 (fst (getColorP c s)) = true.
Proof.
  unfold c16, getColorP. intro H. apply andb_true_iff in H as [_ Hb].
  pose proof (getIntP_small s 0 false ltac:(lia)) as H1.
  destruct (snd (getIntP 0 false s)) as [|x s2]; cbn [fst fg bg]; [rewrite H1, Hb; reflexivity|].
  destruct (x =? 44); cbn [fst fg bg]; [|rewrite H1, Hb; reflexivity].
  rewrite H1, (getIntP_small s2 0 false ltac:(lia)). reflexivity.
Qed.

Lemma pg_c16 : forall s c mx c1 m1, pg c mx s = Ok (c1, m1) -> c16 c = true -> c16 c1 = true.
Proof.
  induction s as [s IH] using str_ind. intros c mx c1 m1.
  destruct s as [|ch s]; [rewrite pg_nil; intro H; injection H as <- <-; auto|].
  rewrite pg_cons.
  destruct (ch =? 2); [intros H Hc; eapply IH; [| exact H | exact Hc]; cbn; lia|].
  destruct (ch =? 22); [intros H Hc; eapply IH; [| exact H | exact Hc]; cbn; lia|].
  destruct (ch =? 31); [intros H Hc; eapply IH; [| exact H | exact Hc]; cbn; lia|].
  destruct (ch =? 15); [intros H _; eapply IH; [| exact H | reflexivity]; cbn; lia|].
  destruct (ch =? 3); [|intros H Hc; eapply IH; [| exact H | exact Hc]; cbn; lia].
  cbv zeta. intros H Hc. eapply IH; [| exact H | apply getColorP_c16; exact Hc].
  pose proof (getColorP_len c s). cbn [length]. lia.
Qed.

(* ---------- the same text parsed from two related contexts ---------- *)
(* c is what FormatParser makes of the re-opened prefix start(d): same flags and background; the
   foreground is the same, or 0 where d has only a background ('\x0300,yy') *)
Definition rel (c d : fctx) : Prop :=
  fbold c = fbold d /\ frev c = frev d /\ ful c = ful d /\ bg c = bg d /\
  (fg c = fg d \/ (fg d = None /\ bg d <> None /\ fg c = Some 0)).

Lemma rel_refl c : rel c c.
Proof. repeat split; auto. Qed.

Lemma getColorP_rel c d s : rel c d ->
  snd (getColorP c s) = snd (getColorP d s) /\ rel (fst (getColorP c s)) (fst (getColorP d s)).
Proof.
  intros (Hb & Hr & Hu & Hbg & _). unfold getColorP.
  destruct (snd (getIntP 0 false s)) as [|x s2]; cbn [fst snd].
  - split; [reflexivity|]. repeat split; cbn [fg bg fbold frev ful]; auto.
  - destruct (x =? 44); cbn [fst snd]; (split; [reflexivity|]); repeat split; cbn [fg bg fbold frev ful]; auto.
Qed.

Lemma pg_rel : forall s c d mc md c1 m1 d1 n1,
  rel c d -> pg c mc s = Ok (c1, m1) -> pg d md s = Ok (d1, n1) -> rel c1 d1.
Proof.
  induction s as [s IH] using str_ind. intros c d mc md c1 m1 d1 n1 Hrel.
  destruct s as [|ch s].
  { rewrite !pg_nil. intros H1 H2. injection H1 as <- <-. injection H2 as <- <-. exact Hrel. }
  rewrite !pg_cons. pose proof Hrel as (Hb & Hr & Hu & Hbg & Hfg).
  assert (Tb : rel (toggle_b c) (toggle_b d)) by (unfold toggle_b; repeat split; cbn [fg bg fbold frev ful]; congruence || auto).
  assert (Tr : rel (toggle_r c) (toggle_r d)) by (unfold toggle_r; repeat split; cbn [fg bg fbold frev ful]; congruence || auto).
  assert (Tu : rel (toggle_u c) (toggle_u d)) by (unfold toggle_u; repeat split; cbn [fg bg fbold frev ful]; congruence || auto).
  destruct (ch =? 2); [apply IH; [cbn; lia|exact Tb]|].
  destruct (ch =? 22); [apply IH; [cbn; lia|exact Tr]|].
  destruct (ch =? 31); [apply IH; [cbn; lia|exact Tu]|].
  destruct (ch =? 15); [apply IH; [cbn; lia|apply rel_refl]|].
  destruct (ch =? 3); [|apply IH; [cbn; lia|exact Hrel]].
  cbv zeta. destruct (getColorP_rel c d s Hrel) as [Es Hr']. rewrite Es.
  apply IH; [|exact Hr']. pose proof (getColorP_len d s). cbn [length]. lia.
Qed.
