(* C12/More.v — the first message plus the messages released by successive
   `more` commands are exactly the chunks, in order, each announcing the number
   of messages that really remain. *)
From Coq Require Import List NArith ZArith Bool Lia ZifyBool Arith.
Import ListNotations.
Require Import Base.Wire Base.PyStr C12.Model.
Open Scope N_scope.

(* ---------- the readable spec ---------- *)
(* the text that is split: truncated to allowedLength * maximum characters *)
Definition reply_text (k : cfg) (s0 : str) : str :=
  let maxlen := (allowed_length k * Z.of_N (c_maximum k))%Z in
  if (maxlen <? Z.of_nat (length s0))%Z then slice_to s0 maxlen else s0.

(* the chunks: the text itself when it fits (or splitting is off), else wrap *)
Definition reply_chunks (k : cfg) (s0 : str) : res (list str) :=
  let s := reply_text k s0 in
  if has_surrogate s then Raise UnicodeError
  else if (Z.of_N (blen s) <=? allowed_length k)%Z || negb (c_mores k) then Ok [s]
  else wrap s (allowed_length k - Z.of_N (more_reserve k)).

(* chunk number j of N is sent as one message; all but the last carry
   " (n more message[s])" in bold with n = number of chunks after it (+ base) *)
Fixpoint annot (k : cfg) (base : nat) (chunks : list str) : list str :=
  match chunks with
  | [] => []
  | c :: rest =>
      let n := N.of_nat (base + length rest) in
      makeReply k (if n =? 0 then c else c ++ suffix k n n) :: annot k base rest
  end.

(* ---------- build_msgs ---------- *)
Lemma annot_snoc k base l c :
  annot k base (l ++ [c]) =
  annot k (S base) l ++
  [makeReply k (if N.of_nat base =? 0 then c else c ++ suffix k (N.of_nat base) (N.of_nat base))].
Proof.
  induction l as [|x l IH]; cbn [app annot length].
  - rewrite Nat.add_0_r. reflexivity.
  - rewrite IH. rewrite app_length. cbn [length].
    replace (base + (length l + 1))%nat with (S base + length l)%nat by lia. reflexivity.
Qed.

Lemma build_rev k : forall rch msgs,
  rev (build_msgs k (N.of_nat (length msgs)) rch msgs) = annot k (length msgs) (rev rch) ++ rev msgs.
Proof.
  induction rch as [|ch rest IH]; intro msgs; cbn [build_msgs rev annot app]; [reflexivity|].
  set (m := makeReply k _).
  replace (N.of_nat (length msgs) + 1) with (N.of_nat (length (msgs ++ [m])))
    by (rewrite app_length; cbn [length]; lia).
  rewrite IH. rewrite annot_snoc. rewrite app_length. cbn [length].
  rewrite Nat.add_1_r. rewrite rev_app_distr. cbn [rev app].
  rewrite <- app_assoc. reflexivity.
Qed.

(* ---------- pop / instant loop ---------- *)
Lemma pop_some l x r : pop l = Some (x, r) -> l = r ++ [x].
Proof.
  unfold pop. destruct (rev l) as [|y r'] eqn:E; [discriminate|].
  intro H. injection H as <- <-.
  rewrite <- (rev_involutive l), E. reflexivity.
Qed.

Lemma pop_none l : pop l = None -> l = [].
Proof.
  unfold pop. destruct (rev l) eqn:E; [|discriminate]. intros _.
  rewrite <- (rev_involutive l), E. reflexivity.
Qed.

Lemma instant_inv fuel : forall inst msgs sent msgs' sent',
  instant_loop fuel inst msgs sent = (msgs', sent') ->
  sent' ++ rev msgs' = sent ++ rev msgs.
Proof.
  induction fuel as [|f IH]; intros inst msgs sent msgs' sent' H; cbn [instant_loop] in H.
  - injection H as <- <-. reflexivity.
  - destruct (1 <? inst).
    + destruct (pop msgs) as [[m msgs1]|] eqn:Ep.
      * apply IH in H. rewrite H. apply pop_some in Ep. subst msgs.
        rewrite rev_app_distr. cbn [rev app]. rewrite <- app_assoc. reflexivity.
      * injection H as <- <-. reflexivity.
    + injection H as <- <-. reflexivity.
Qed.

(* ---------- reply: sent now ++ pending (in send order) = annotated chunks ---------- *)
Theorem reply_sequence : forall k s0 sent L,
  reply k s0 = Ok (sent, L) ->
  exists chunks, reply_chunks k s0 = Ok chunks /\ sent ++ rev L = annot k 0 chunks.
Proof.
  intros k s0 sent L H. unfold reply in H. unfold reply_chunks, reply_text.
  set (s := if (_ <? _)%Z then _ else _) in *.
  destruct (has_surrogate s); [discriminate|].
  destruct ((Z.of_N (blen s) <=? allowed_length k)%Z || negb (c_mores k)).
  - injection H as <- <-. exists [s]. split; reflexivity.
  - destruct (wrap s (allowed_length k - Z.of_N (more_reserve k))) as [chunks|e]; [|discriminate].
    cbn [bind] in H. exists chunks. split; [reflexivity|].
    pose proof (build_rev k (rev chunks) []) as Hb. cbn [length N.of_nat rev app] in Hb.
    rewrite rev_involutive, app_nil_r in Hb.
    set (msgs := build_msgs k 0 (rev chunks) []) in *.
    destruct (instant_loop (length msgs) (c_instant k) msgs []) as [msgs1 sent1] eqn:Ei.
    apply instant_inv in Ei. cbn [app] in Ei. rewrite Hb in Ei.
    destruct (pop msgs1) as [[m L']|] eqn:Ep.
    + injection H as <- <-. apply pop_some in Ep. subst msgs1.
      rewrite rev_app_distr in Ei. cbn [rev app] in Ei. rewrite <- app_assoc. exact Ei.
    + injection H as <- <-. apply pop_none in Ep. subst msgs1. exact Ei.
Qed.

(* ---------- Misc.more ---------- *)
Lemma more_split L number :
  fst (more L number) ++ rev (snd (more L number)) = rev L.
Proof.
  unfold more. cbn [fst snd]. rewrite <- rev_app_distr. rewrite firstn_skipn. reflexivity.
Qed.

Lemma more_length L number :
  1 <= number -> (length (snd (more L number)) <= length L - 1)%nat.
Proof. intro H. unfold more. cbn [snd]. rewrite firstn_length. lia. Qed.

Lemma mores_all times : forall L number,
  1 <= number -> (length L <= times)%nat -> concat (mores_go times L number) = rev L.
Proof.
  induction times as [|t IH]; intros L number Hn Hl.
  - destruct L; [reflexivity|cbn in Hl; lia].
  - cbn [mores_go]. pose proof (more_split L number) as Hs. pose proof (more_length L number Hn) as Hlen.
    destruct (more L number) as [sent L']. cbn [fst snd] in *. cbn [concat].
    rewrite IH; [exact Hs|exact Hn|lia].
Qed.

(* the whole conversation *)
Theorem more_sequence : forall k s0 sent L number times,
  reply k s0 = Ok (sent, L) -> 1 <= number -> (length L <= times)%nat ->
  exists chunks, reply_chunks k s0 = Ok chunks /\
                 sent ++ concat (mores_go times L number) = annot k 0 chunks.
Proof.
  intros k s0 sent L number times H Hn Hl. apply reply_sequence in H as [chunks [Hc Ha]].
  exists chunks. split; [exact Hc|]. rewrite mores_all by assumption. exact Ha.
Qed.

(* every `more` on a non-empty stack releases at least one message, and
   nothing but an empty answer comes after exhaustion *)
Theorem more_progress : forall L number, 1 <= number -> L <> [] -> fst (more L number) <> [].
Proof.
  intros L number Hn Hne H. pose proof (more_split L number) as Hs. rewrite H in Hs. cbn [app] in Hs.
  apply (f_equal (@length str)) in Hs. rewrite !rev_length in Hs.
  pose proof (more_length L number Hn). destruct L; [congruence|cbn [length] in *; lia].
Qed.

Theorem more_exhausted : forall number, more [] number = ([], []).
Proof. intro number. unfold more. cbn. reflexivity. Qed.
