(* C12/Safe.v — reply() makes the text a valid IRC argument (ircutils.safeArgument)
   BEFORE it measures, truncates and wraps it: the text that is split, and every
   chunk cut from it, contains no CR, LF or NUL, so the safeArgument that
   _makeReply applies to each chunk afterwards never changes (lengthens) one. *)
From Coq Require Import List NArith ZArith Bool.
Import ListNotations.
Require Import Base.Wire Base.PyStr C12.Model C12.Wrap C12.Chars.
Open Scope N_scope.

(* r stands for repr(s): CPython's repr escapes CR, LF and NUL, so it is a valid argument *)
Theorem safe_arg_valid : forall s r, valid_arg r = true -> valid_arg (safe_arg s r) = true.
Proof. intros s r Hr. unfold safe_arg. destruct (valid_arg s) eqn:E; assumption. Qed.

Theorem safe_arg_id : forall s r, valid_arg s = true -> safe_arg s r = s.
Proof. intros s r H. unfold safe_arg. rewrite H. reflexivity. Qed.

Theorem safe_chunks_valid : forall s r (n : Z) ls,
  valid_arg r = true -> byteTextWrap (split_chunks (safe_arg s r)) n = Ok ls ->
  Forall (fun c => safe_arg c (* repr(c) *) [] = c) ls.
Proof.
  intros s r n ls Hr Hb.
  pose proof (byteTextWrap_allc arg_char eq_refl (safe_arg s r) n ls (safe_arg_valid s r Hr) Hb) as H.
  eapply Forall_impl; [|exact H]. intros c Hc. apply safe_arg_id. exact Hc.
Qed.

(* a NUL makes the reply invalid; its repr is what is split *)
Example safe_arg_example :
  valid_arg [97; 0; 98] = false /\
  safe_arg [97; 0; 98] [39; 97; 92; 120; 48; 48; 98; 39] = [39; 97; 92; 120; 48; 48; 98; 39].
Proof. split; reflexivity. Qed.
