(* C12/Props.v — the property theorems, nothing else.
   Model: C12/Model.v (mirrors utils.str.byteTextWrap/splitBytes, ircutils.FormatContext/
   FormatParser/wrap, NestedCommandsIrcProxy.reply, _makeReply, Misc.more).
   Proofs: Wrap.v, More.v, Fits.v, Plain.v, Total.v.
   The model follows the repaired code (fix: commits for C12.F12, F13, F40, F41, F42). *)
From Coq Require Import List NArith ZArith.
Import ListNotations.
Require Import Base.Wire Base.PyStr C12.Model C12.Wrap C12.More C12.Fits C12.Plain C12.Total.

(* ---- byteTextWrap, for every word list (the output of TextWrapper._split_chunks is an
        explicit input) and every size >= 4 ---- *)

(* it terminates (no lone surrogates: str.encode would raise) *)
Theorem C12_wrap_total : forall words (n : Z),
  (4 <= n)%Z -> existsb has_surrogate words = false -> exists ls, byteTextWrap words n = Ok ls.
Proof. exact wrap_total. Qed.
Print Assumptions C12_wrap_total.

(* every chunk encodes to at most n bytes (utf8 = the model's str.encode) *)
Theorem C12_wrap_bytes : forall words (n : Z) ls,
  (4 <= n)%Z -> byteTextWrap words n = Ok ls ->
  Forall (fun l => (Z.of_nat (length (utf8 l)) <= n)%Z) ls.
Proof. exact wrap_bytes. Qed.
Print Assumptions C12_wrap_bytes.

(* nothing lost, nothing invented, order kept *)
Theorem C12_wrap_concat : forall words n ls,
  byteTextWrap words n = Ok ls -> concat ls = concat words.
Proof. exact wrap_concat. Qed.
Print Assumptions C12_wrap_concat.

(* with the closed splitter (runs of blanks / non-blanks): the chunks spell the munged text *)
Theorem C12_wrap_munge : forall s n ls,
  byteTextWrap (split_chunks s) n = Ok ls -> concat ls = munge s.
Proof. exact wrap_munge. Qed.
Print Assumptions C12_wrap_munge.

(* the bound 4 is needed: below it the Python loop can spin for ever *)
Theorem C12_wrap_small_refuted :
  exists words n, (0 < n < 4)%Z /\ existsb has_surrogate words = false /\
                  byteTextWrap words n = Raise OtherError.
Proof. exact wrap_small_hangs. Qed.
Print Assumptions C12_wrap_small_refuted.

(* ---- the reply / more sequence ---- *)

(* what is sent at once plus what successive `more` commands release is exactly the list of
   chunks in order, chunk j of N carrying "(N-1-j more message[s])" and the last one nothing *)
Theorem C12_more_sequence : forall k s0 sent L number times,
  reply k s0 = Ok (sent, L) -> (1 <= number)%N -> (length L <= times)%nat ->
  exists chunks, reply_chunks k s0 = Ok chunks /\
                 sent ++ concat (mores_go times L number) = annot k 0 chunks.
Proof. exact more_sequence. Qed.
Print Assumptions C12_more_sequence.

Theorem C12_more_progress : forall L number, (1 <= number)%N -> L <> [] -> fst (more L number) <> [].
Proof. exact more_progress. Qed.
Print Assumptions C12_more_progress.

(* ---- every message fits in 512 bytes once prefixed ----
   Full statement:  forall k s sent L, reply k s = Ok (sent, L) ->
                      Forall (fun line => line_fits k line = true) (sent ++ rev L).
   The accounting steps, each at the strength the repaired code reaches: *)

(* (a) allowedLength (full since the repair of F41/F42): any prefix, target and nick, channel or
       query: a payload within allowedLength gives a line within 512 bytes *)
Theorem C12_line_fits : forall k p,
  c_length k = 0%N -> nonempty (strip [1%N] p) = true ->
  (Z.of_N (blen p) <= allowed_length k)%Z -> line_fits k (makeReply k p) = true.
Proof. exact line_fits_full. Qed.
Print Assumptions C12_line_fits.

(* (b) the "(XX more messages)" reserve (repair of F12) covers the suffix for 1..99 pending
       messages -- every count the two-digit text provides for; a three-digit count is still over *)
Theorem C12_suffix_reserve_on_domain : forall n,
  (1 <= n <= 99)%N -> (blen (suffix n n) <= gen.T12.MORE_RESERVE)%N.
Proof. exact suffix_reserve_on_domain. Qed.
Print Assumptions C12_suffix_reserve_on_domain.

Theorem C12_suffix_reserve_refuted : exists n, (99 < n)%N /\ (gen.T12.MORE_RESERVE < blen (suffix n n))%N.
Proof. exact suffix_reserve_refuted. Qed.
Print Assumptions C12_suffix_reserve_refuted.

(* (c) FormatContext.size() (full since the repair of F13): for every context with colour numbers
       below 100 (getInt yields < 16) it covers what start() and end() add to a chunk *)
Theorem C12_context_size_covers : forall c s,
  small (fg c) -> small (bg c) -> (blen (fend c (fstart c s)) <= blen s + fsize c)%N.
Proof. exact context_size_covers. Qed.
Print Assumptions C12_context_size_covers.

(*     ircutils.wrap: on text without formatting codes every chunk fits and the chunks spell the
       munged text.  Partial: formatted text is covered by the differential run only, and the
       full statement is still refuted by the colour/digit junction (F14, known finding). *)
Theorem C12_chunk_fits_on_plain_partial : forall s (n : Z) ls,
  no_fmt s = true -> (4 <= n)%Z -> wrap s n = Ok ls ->
  Forall (fun c => (Z.of_nat (length (utf8 c)) <= n)%Z) ls /\ concat ls = munge s.
Proof. exact chunk_fits_on_plain. Qed.
Print Assumptions C12_chunk_fits_on_plain_partial.

Theorem C12_chunk_fits_refuted :
  exists s ls, wrap s 12 = Ok ls /\ Exists (fun c => (12 < blen c)%N) ls.
Proof. exact chunk_fits_refuted. Qed.
Print Assumptions C12_chunk_fits_refuted.

(* ---- the visible text (F14, known finding) ---- *)
Theorem C12_visible_text_refuted :
  exists s ls, wrap s 16 = Ok ls /\ concat (map visible ls) <> visible (munge s).
Proof. exact visible_text_refuted. Qed.
Print Assumptions C12_visible_text_refuted.

(* ---- FormatParser never raises (full since the repair of F40) ---- *)
Theorem C12_parse_total : forall s, exists r, parse s = Ok r.
Proof. exact parse_total. Qed.
Print Assumptions C12_parse_total.

(* wrap can only fail by str.encode on a lone surrogate or by the byteTextWrap loop not
   terminating (size below one character, see C12_wrap_total for size >= 4) *)
Theorem C12_wrap_raises_only : forall s n e, wrap s n = Raise e -> e = UnicodeError \/ e = OtherError.
Proof. exact wrap_raises_only. Qed.
Print Assumptions C12_wrap_raises_only.
