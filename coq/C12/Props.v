(* C12/Props.v — the property theorems, nothing else.
   Model: C12/Model.v (mirrors utils.str.byteTextWrap/splitBytes, ircutils.FormatContext/
   FormatParser/wrap, NestedCommandsIrcProxy.reply, _makeReply, Misc.more).
   Proofs: Wrap.v, More.v, Fits.v, Plain.v, Total.v.
   The model follows the repaired code (fix: commits for C12.F12, F13, F40, F41, F42, F43, F44, F45). *)
From Coq Require Import List NArith ZArith.
Import ListNotations.
Require Import Base.Wire Base.PyStr C12.Model C12.Wrap C12.More C12.Fits C12.Plain C12.Total
  C12.Chars C12.Parser C12.Format C12.Visible C12.EndToEnd C12.MoreNick C12.FmtEndToEnd C12.Ident C12.Safe.

(* ---- byteTextWrap, for every word list (the output of TextWrapper._split_chunks is an
        explicit input) and every size >= 4 ---- *)

(* it terminates for EVERY width, even 0 or negative (repair of F49: a line takes at least one character;
   each step consumes a word or shortens it) -- no lone surrogates: str.encode would raise *)
Theorem C12_wrap_total : forall words (n : Z),
  existsb has_surrogate words = false -> exists ls, byteTextWrap words n = Ok ls.
Proof. exact wrap_total. Qed.
Print Assumptions C12_wrap_total.

(* every chunk encodes to at most n bytes (utf8 = the model's str.encode) *)
Theorem C12_wrap_bytes : forall words (n : Z) ls,
  (4 <= n)%Z -> byteTextWrap words n = Ok ls ->
  Forall (fun l => (Z.of_nat (length (utf8 l)) <= n)%Z) ls.
Proof. exact wrap_bytes. Qed.
Print Assumptions C12_wrap_bytes.

(* nothing lost, nothing invented, order kept *)
Theorem C12_wrap_concat : forall words n ls,
  byteTextWrap words n = Ok ls -> concat ls = concat words.
Proof. exact wrap_concat. Qed.
Print Assumptions C12_wrap_concat.

(* with the closed splitter (runs of blanks / non-blanks): the chunks spell the munged text *)
Theorem C12_wrap_munge : forall s n ls,
  byteTextWrap (split_chunks s) n = Ok ls -> concat ls = munge s.
Proof. exact wrap_munge. Qed.
Print Assumptions C12_wrap_munge.

(* ---- the reply / more sequence ---- *)

(* what is sent at once plus what successive `more` commands release is exactly the list of
   chunks in order, chunk j of N carrying "(N-1-j more message[s])" and the last one nothing *)
Theorem C12_more_sequence : forall k s0 sent L number times,
  reply k s0 = Ok (sent, L) -> (1 <= number)%N -> (length L <= times)%nat ->
  exists chunks, reply_chunks k s0 = Ok chunks /\
                 sent ++ concat (mores_go times L number) = annot k 0 chunks.
Proof. exact more_sequence. Qed.
Print Assumptions C12_more_sequence.

Theorem C12_more_progress : forall L number, (1 <= number)%N -> L <> [] -> fst (more L number) <> [].
Proof. exact more_progress. Qed.
Print Assumptions C12_more_progress.

(* `more <nick>` by another user (repair of F44: Misc.more copies the messages it takes over).  For every
   well-formed store (no message object queued twice, none already sent) each command delivers everything
   it pops -- nothing trips the emulatedEcho assertion in takeMsg -- and the other user's commands leave
   the owner's queue alone ... *)
Theorem C12_more_nick_delivers : forall number st op,
  wf st ->
  wf (snd (mstep number st op)) /\
  fst (mstep number st op) = fst (more (lines (queue_of st op)) number) /\
  lines (ms_owner (snd (mstep number st op))) =
    match op with OpOwner => snd (more (lines (ms_owner st)) number) | _ => lines (ms_owner st) end.
Proof. exact mstep_delivers. Qed.
Print Assumptions C12_more_nick_delivers.

(* ... so after a reply, whatever the other user does in between, the owner's successive `more` outputs
   followed by what is still pending for her are exactly her pending chunks, in order *)
Theorem C12_more_nick_sequence : forall k s sent L number ops,
  reply k s = Ok (sent, L) ->
  let st0 := MS (number_from 0 L) [] [] (N.of_nat (length (number_from 0 L))) in
  owner_out ops (fst (mrun number st0 ops)) ++ rev (lines (ms_owner (snd (mrun number st0 ops)))) = rev L.
Proof. exact more_nick_sequence. Qed.
Print Assumptions C12_more_nick_sequence.

(* ---- every message fits in 512 bytes once prefixed ----
   Full statement:  forall k s sent L, reply k s = Ok (sent, L) ->
                      Forall (fun line => line_fits k line = true) (sent ++ rev L).
   The accounting steps, each at the strength the repaired code reaches: *)

(* (a) allowedLength (full since the repairs of F41/F42 and F43): for every reply configuration --
       prefix/target/nick of any code points, channel or query, private=/to=/notice= keywords,
       reply.inPrivate/withNotice -- a payload within allowedLength gives a line within 512 bytes
       (reply() asks _makeReply() for the recipient and reserves "nick: " for `to or msg.nick`) *)
Theorem C12_line_fits : forall k p,
  c_length k = 0%N -> nonempty (strip [1%N] p) = true ->
  (Z.of_N (blen p) <= allowed_length k)%Z -> line_fits k (makeReply k p) = true.
Proof. exact line_fits_full. Qed.
Print Assumptions C12_line_fits.

(* (b) the "(XX more messages)" reserve (repairs of F12 and F45): in whatever language the two words are,
       the reserve -- the byte length of the longer of '(XX <more message>)' / '(XX <more messages>)' plus
       the space and the two bold characters -- covers the suffix for 1..99 pending messages, every count
       the two-character 'XX' provides for; a three-digit count is still over *)
Theorem C12_suffix_reserve_on_domain : forall k n,
  (1 <= n <= 99)%N -> (blen (suffix k n n) <= more_reserve k)%N.
Proof. exact suffix_reserve_on_domain. Qed.
Print Assumptions C12_suffix_reserve_on_domain.

Theorem C12_suffix_reserve_refuted : exists k n, (99 < n)%N /\ (more_reserve k < blen (suffix k n n))%N.
Proof. exact suffix_reserve_refuted. Qed.
Print Assumptions C12_suffix_reserve_refuted.

(* (c) FormatContext.size() (full since the repair of F13): for every context with colour numbers
       below 100 (getInt yields < 16) it covers what start() and end() add to a chunk *)
Theorem C12_context_size_covers : forall c s,
  small (fg c) -> small (bg c) -> (blen (fend c (fstart c s)) <= blen s + fsize c)%N.
Proof. exact context_size_covers. Qed.
Print Assumptions C12_context_size_covers.

(* (d) ircutils.wrap on text without formatting codes (\x02 \x03 \x0f \x16 \x1f), the full statement:
       it returns, the result is byteTextWrap's own, every chunk fits, the chunks spell the munged
       text and none is empty *)
Theorem C12_wrap_plain : forall s (n : Z),
  no_fmt s = true -> has_surrogate s = false -> (4 <= n)%Z ->
  exists ls, wrap s n = Ok ls
             /\ byteTextWrap (split_chunks s) n = Ok ls
             /\ Forall (fun c => (Z.of_nat (length (utf8 c)) <= n)%Z) ls
             /\ concat ls = munge s
             /\ (s <> [] -> Forall (fun c => c <> []) ls).
Proof. exact wrap_plain. Qed.
Print Assumptions C12_wrap_plain.

(* (e) ircutils.wrap on formatted text.  Full statement: every chunk fits the requested length and the
       visible text (each chunk stripped on its own) is that of the reply.  It holds on the decidable
       domain safe_cuts (text, width): no chunk after the first starts with a digit or a comma -- i.e.
       no cut falls inside a colour sequence or in front of text a re-opened colour prefix would
       swallow -- for text whose only blanks are spaces; refuted outside it (F14). *)
Theorem C12_chunk_fits_on_domain : forall s (n : Z) cF mx ls,
  s <> [] -> munged s = true -> parse s = Ok (cF, mx) -> (Z.of_N mx + 4 <= n)%Z ->
  safe_cuts s n = true -> wrap s n = Ok ls ->
  Forall (fun c => (Z.of_nat (length (utf8 c)) <= n)%Z) ls.
Proof. exact fmt_chunk_fits. Qed.
Print Assumptions C12_chunk_fits_on_domain.

Theorem C12_chunk_fits_refuted :
  exists s ls, s <> [] /\ munged s = true /\ safe_cuts s 12 = false /\
               wrap s 12 = Ok ls /\ Exists (fun c => (12 < blen c)%N) ls.
Proof. exact chunk_fits_refuted_outside. Qed.
Print Assumptions C12_chunk_fits_refuted.

Theorem C12_visible_text_on_domain : forall s (n : Z) cF mx ls,
  s <> [] -> munged s = true -> parse s = Ok (cF, mx) -> (Z.of_N mx + 4 <= n)%Z ->
  safe_cuts s n = true -> wrap s n = Ok ls ->
  concat (map visible ls) = visible s.
Proof. exact fmt_visible_text. Qed.
Print Assumptions C12_visible_text_on_domain.

Theorem C12_visible_text_refuted :
  exists s ls, s <> [] /\ munged s = true /\ safe_cuts s 16 = false /\
               wrap s 16 = Ok ls /\ concat (map visible ls) <> visible s.
Proof. exact visible_text_refuted_outside. Qed.
Print Assumptions C12_visible_text_refuted.

(* ---- end to end, plain text ----
   For every reply configuration (channel or query, any prefix/target/nick, private=/to=/notice=
   keywords, reply.inPrivate/withNotice), every mores.length/maximum/instant and Misc.mores
   setting allowed by plain_dom (splitting on; the chunk budget between 25 bytes and the room of
   the line -- always true for mores.length = 0 unless the hostmask leaves less than 25 bytes; at
   most 100 chunks) and every non-empty text without \x01 \x02 \x03 \x0f \x16 \x1f:
   the lines relayed for the command and the successive `more` commands are one per chunk, in
   order, with the right remaining count; (a) each fits 512 bytes once prefixed and is left intact
   by takeMsg; (b) the chunks are the text itself or spell its munged form; (c) each chunk is a
   non-empty contiguous piece of it; the text is the reply cut to allowedLength * maximum
   characters, and the whole reply when it is not longer. *)
Theorem C12_reply_plain_end_to_end : forall k s0 sent L number times,
  plain_dom k s0 = true -> reply k s0 = Ok (sent, L) -> (1 <= number)%N -> (length L <= times)%nat ->
  let lines := sent ++ concat (mores_go times L number) in
  let text := reply_text k s0 in
  exists chunks,
    lines = lines_of k chunks
    /\ Forall (good_line k) lines
    /\ (chunks = [text] \/ concat chunks = munge text)
    /\ (forall c, In c chunks -> c <> [] /\ exists pre post, concat chunks = pre ++ c ++ post)
    /\ (exists m, text = firstn m s0)
    /\ ((Z.of_nat (length s0) <= allowed_length k * Z.of_N (c_maximum k))%Z -> text = s0).
Proof. exact reply_plain_end_to_end. Qed.
Print Assumptions C12_reply_plain_end_to_end.

Theorem C12_reply_plain_total : forall k s0,
  plain_dom k s0 = true -> has_surrogate s0 = false -> exists sent L, reply k s0 = Ok (sent, L).
Proof. exact reply_plain_total. Qed.
Print Assumptions C12_reply_plain_total.

(* ---- end to end, formatted text under safe_cuts ----
   Same composition for replies with mIRC formatting: on fmt_dom (non-empty text without \x01 whose only
   blanks are spaces; splitting on; the formatting overhead fits the chunk budget; no cut of the text
   actually split falls in front of a digit or a comma; at most 100 chunks) the relayed lines are one
   per chunk in order with the right count, each fits 512 bytes and is left intact by takeMsg, no chunk
   is empty, and the visible text of the chunks -- each stripped on its own -- is the visible text of the
   reply, every chunk showing a contiguous piece of it. *)
Theorem C12_reply_fmt_end_to_end : forall k s0 sent L number times,
  fmt_dom k s0 = true -> reply k s0 = Ok (sent, L) -> (1 <= number)%N -> (length L <= times)%nat ->
  let lines := sent ++ concat (mores_go times L number) in
  let text := reply_text k s0 in
  exists chunks,
    lines = lines_of k chunks
    /\ Forall (good_line k) lines
    /\ concat (map visible chunks) = visible text
    /\ (forall c, In c chunks -> c <> [] /\ exists pre post, visible text = pre ++ visible c ++ post)
    /\ (exists m, text = firstn m s0)
    /\ ((Z.of_nat (length s0) <= allowed_length k * Z.of_N (c_maximum k))%Z -> text = s0).
Proof. exact reply_fmt_end_to_end. Qed.
Print Assumptions C12_reply_fmt_end_to_end.

(* ---- the hostmask reply() measures is the one the server prepends ----
   c_prefix of the theorems above is irc.prefix.  Irc.feedMsg learns it from any message of the bot itself
   and Irc.doNick follows the bot's own NICK (nick first, then the prefix rebuilt from it): whatever the
   server does -- own messages, renames of the bot, messages and renames of others who do not carry the
   bot's nick -- irc.nick is the bot's nick on the server and, once one own message or rename was seen,
   irc.prefix is nick!user@host for that nick. *)
Theorem C12_prefix_tracks : forall U H acts N st known,
  i_nick st = N -> (known = true -> i_prefix st = hostmask N U H) -> others_ok N acts ->
  let (N', st') := srv_run U H N st acts in
  i_nick st' = N' /\ (orb known (seen_own acts) = true -> i_prefix st' = hostmask N' U H).
Proof. exact prefix_tracks. Qed.
Print Assumptions C12_prefix_tracks.

(* ---- the text is made a valid IRC argument before it is measured and wrapped ----
   reply()'s length-checked branch starts with s = ircutils.safeArgument(s) (reply_top); every theorem
   above is about that safe text.  [r] is repr(s) (CPython's, free of CR/LF/NUL): the safe text is a
   valid argument, and so is every chunk byteTextWrap cuts from it -- the safeArgument that _makeReply()
   applies to each chunk afterwards is the identity, it never lengthens a chunk that was already sized. *)
Theorem C12_safe_text_valid : forall s r, valid_arg r = true -> valid_arg (safe_arg s r) = true.
Proof. exact safe_arg_valid. Qed.
Print Assumptions C12_safe_text_valid.

Theorem C12_safe_chunks_valid : forall s r (n : Z) ls,
  valid_arg r = true -> byteTextWrap (split_chunks (safe_arg s r)) n = Ok ls ->
  Forall (fun c => safe_arg c [] = c) ls.
Proof. exact safe_chunks_valid. Qed.
Print Assumptions C12_safe_chunks_valid.

(* ---- FormatParser never raises (full since the repair of F40) ---- *)
Theorem C12_parse_total : forall s, exists r, parse s = Ok r.
Proof. exact parse_total. Qed.
Print Assumptions C12_parse_total.

(* wrap can only fail by str.encode on a lone surrogate: it returns for every width *)
Theorem C12_wrap_raises_only : forall s n e, wrap s n = Raise e -> e = UnicodeError.
Proof. exact wrap_raises_only. Qed.
Print Assumptions C12_wrap_raises_only.
