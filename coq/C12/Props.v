(* C12/Props.v — the property theorems, nothing else.
   Model: C12/Model.v (mirrors utils.str.byteTextWrap/splitBytes, ircutils.FormatContext/
   FormatParser/wrap, NestedCommandsIrcProxy.reply, _makeReply, Misc.more).
   Proofs: Wrap.v, More.v, Fits.v. *)
From Coq Require Import List NArith ZArith.
Import ListNotations.
Require Import Base.Wire Base.PyStr C12.Model C12.Wrap C12.More C12.Fits C12.Plain.

(* ---- byteTextWrap, for every word list (the output of TextWrapper._split_chunks is an
        explicit input) and every size >= 4 ---- *)

(* it terminates (no lone surrogates: str.encode would raise) *)
Theorem C12_wrap_total : forall words (n : Z),
  (4 <= n)%Z -> existsb has_surrogate words = false -> exists ls, byteTextWrap words n = Ok ls.
Proof. exact wrap_total. Qed.
Print Assumptions C12_wrap_total.

(* every chunk encodes to at most n bytes (utf8 = the model's str.encode) *)
Theorem C12_wrap_bytes : forall words (n : Z) ls,
  (4 <= n)%Z -> byteTextWrap words n = Ok ls ->
  Forall (fun l => (Z.of_nat (length (utf8 l)) <= n)%Z) ls.
Proof. exact wrap_bytes. Qed.
Print Assumptions C12_wrap_bytes.

(* nothing lost, nothing invented, order kept *)
Theorem C12_wrap_concat : forall words n ls,
  byteTextWrap words n = Ok ls -> concat ls = concat words.
Proof. exact wrap_concat. Qed.
Print Assumptions C12_wrap_concat.

(* with the closed splitter (runs of blanks / non-blanks): the chunks spell the munged text *)
Theorem C12_wrap_munge : forall s n ls,
  byteTextWrap (split_chunks s) n = Ok ls -> concat ls = munge s.
Proof. exact wrap_munge. Qed.
Print Assumptions C12_wrap_munge.

(* the bound 4 is needed: below it the Python loop can spin for ever *)
Theorem C12_wrap_small_refuted :
  exists words n, (0 < n < 4)%Z /\ existsb has_surrogate words = false /\
                  byteTextWrap words n = Raise OtherError.
Proof. exact wrap_small_hangs. Qed.
Print Assumptions C12_wrap_small_refuted.

(* ---- the reply / more sequence ---- *)

(* what is sent at once plus what successive `more` commands release is exactly the list of
   chunks in order, chunk j of N carrying "(N-1-j more message[s])" and the last one nothing *)
Theorem C12_more_sequence : forall k s0 sent L number times,
  reply k s0 = Ok (sent, L) -> (1 <= number)%N -> (length L <= times)%nat ->
  exists chunks, reply_chunks k s0 = Ok chunks /\
                 sent ++ concat (mores_go times L number) = annot k 0 chunks.
Proof. exact more_sequence. Qed.
Print Assumptions C12_more_sequence.

Theorem C12_more_progress : forall L number, (1 <= number)%N -> L <> [] -> fst (more L number) <> [].
Proof. exact more_progress. Qed.
Print Assumptions C12_more_progress.

(* ---- every message fits in 512 bytes once prefixed ----
   Full statement:  forall k s sent L, reply k s = Ok (sent, L) ->
                      Forall (fun line => line_fits k line = true) (sent ++ rev L).
   The pinned code violates it in four independent ways; each accounting step is proved on its
   decidable domain and refuted outside it. *)

(* (a) allowedLength: a payload within allowedLength gives a line within 512 bytes when
       prefix/target/nick are ASCII and, in a query, the sender nick fits the reserve *)
Theorem C12_line_fits_on_domain : forall k p,
  env_ok k = true -> nonempty (strip [1%N] p) = true ->
  (Z.of_N (blen p) <= allowed_length k)%Z -> line_fits k (makeReply k p) = true.
Proof. exact line_fits_on_domain. Qed.
Print Assumptions C12_line_fits_on_domain.

Theorem C12_line_fits_refuted :
  (exists k p, env_ok k = false /\ c_public k = true /\ nonempty (strip [1%N] p) = true /\
               (Z.of_N (blen p) <= allowed_length k)%Z /\ line_fits k (makeReply k p) = false) /\
  (exists k p, env_ok k = false /\ c_public k = false /\ nonempty (strip [1%N] p) = true /\
               (Z.of_N (blen p) <= allowed_length k)%Z /\ line_fits k (makeReply k p) = false).
Proof. exact line_fits_refuted. Qed.
Print Assumptions C12_line_fits_refuted.

(* (b) the "(XX more messages)" reserve covers the suffix only when one message remains *)
Theorem C12_suffix_reserve_on_domain : blen (suffix 1 1) = gen.T12.MORE_RESERVE.
Proof. exact suffix_reserve_on_domain. Qed.
Print Assumptions C12_suffix_reserve_on_domain.

Theorem C12_suffix_reserve_refuted : forall n, (2 <= n)%N -> (gen.T12.MORE_RESERVE < blen (suffix n n))%N.
Proof. exact suffix_reserve_refuted. Qed.
Print Assumptions C12_suffix_reserve_refuted.

(* (c) ircutils.wrap: a chunk may exceed the requested length (colour 0) *)
Theorem C12_chunk_fits_refuted :
  exists s ls, wrap s 32 = Ok ls /\ Exists (fun c => (32 < blen c)%N) ls.
Proof. exact chunk_fits_refuted. Qed.
Print Assumptions C12_chunk_fits_refuted.

(*     on text without formatting codes (\x02 \x03 \x0f \x16 \x1f) every chunk fits and the chunks
       spell the munged text.  Partial: the largest domain is "no colour 0"; text with other
       formatting is covered by the differential run and the direct oracle only. *)
Theorem C12_chunk_fits_on_plain_partial : forall s (n : Z) ls,
  no_fmt s = true -> (4 <= n)%Z -> wrap s n = Ok ls ->
  Forall (fun c => (Z.of_nat (length (utf8 c)) <= n)%Z) ls /\ concat ls = munge s.
Proof. exact chunk_fits_on_plain. Qed.
Print Assumptions C12_chunk_fits_on_plain_partial.

(* (d) end to end: a plain ASCII reply, ASCII channel, overflows *)
Theorem C12_message_fits_refuted :
  exists k s sent L, env_ok k = true /\ ascii s = true /\ reply k s = Ok (sent, L) /\
                     Exists (fun line => line_fits k line = false) (sent ++ rev L).
Proof. exact message_fits_refuted. Qed.
Print Assumptions C12_message_fits_refuted.

(* ---- the visible text ---- *)
Theorem C12_visible_text_refuted :
  exists s ls, wrap s 16 = Ok ls /\ concat (map visible ls) <> visible (munge s).
Proof. exact visible_text_refuted. Qed.
Print Assumptions C12_visible_text_refuted.

(* a digit character that int() rejects after \x03 makes wrap raise for every length *)
Theorem C12_wrap_valueerror_refuted :
  exists s, has_surrogate s = false /\ forall n, wrap s n = Raise ValueError.
Proof. exact wrap_total_refuted. Qed.
Print Assumptions C12_wrap_valueerror_refuted.
