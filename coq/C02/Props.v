(* C02/Props.v — the property theorems, nothing else.
   Model: C02/Model.v (commands of plugins/User, Admin, Channel with their converters and gates, on top of the
   C03 / C04 / C13 / C16 models).  Proofs: C02/Lemmas.v (in-memory owner invariant), C02/Bridge.v (C03 and C16
   capability algebra coincide), C02/Reader.v (the users.conf reader on well-formed accounts, collisions included),
   C02/Inv.v (well-formedness is an invariant of the histories), C02/Reload.v (C16 domain, examples).
   owner_in z us : some account with id z in us holds the capability owner;
   owners_sub us' us : every owner id of us' is an owner id of us. *)
From Coq Require Import List NArith ZArith Bool.
Import ListNotations.
Require Import Base.Wire Base.PyStr C02.Model C02.Lemmas C02.Inv C02.Reload.
Require C02.Reader C16.Model.

(* the converter lists of the 18 modelled commands are the ones the model was written against *)
Theorem C02_specs_pinned : specs_ok gen.T02.SPECS = true.
Proof. vm_compute. reflexivity. Qed.
Print Assumptions C02_specs_pinned.

(* No history of commands (any text, any sender, any recognition oracle — in particular every sender who is
   not an owner), interleaved with flushes, adds an owner in memory. *)
Theorem C02_no_new_owner_mem :
  forall ops s, Forall no_reload ops -> owners_sub (s_users (run_ops s ops)) (s_users s).
Proof. exact run_ops_sub. Qed.
Print Assumptions C02_no_new_owner_mem.

(* key lemma behind it: whatever a command does to an account's capability set cannot put "owner" in it
   (Admin.capability.add refuses every spelling that folds to owner; a channel capability contains a comma) *)
Theorem C02_effect_never_grants_owner :
  forall s E text a cs, effect_of s E text = ESet a (MCaps cs) ->
  In a (s_users s) /\ (C03.Model.smem OWNER cs = true -> is_owner a = true).
Proof. intros s E text a cs H. pose proof (effect_of_ok s E text) as K. rewrite H in K. exact K. Qed.
Print Assumptions C02_effect_never_grants_owner.

(* The reload clause.  Full statement:
     forall ops s, owners_sub (s_users (run_ops s ops)) (s_users s)                (ops may contain OReload)
   Since the repairs of C02.F1 (user names) and C02.F43 (capability tokens) every account the modelled commands
   write is well formed for users.conf; this is an invariant of the histories (wf_state: ids >= 0; names safe
   fields and not hostmask-shaped; passwords hashed; capabilities folded single tokens other than -owner; nicks and
   gpg keys as C16 requires; IrcUserCreator.u empty or a record with an id) ... *)
Theorem C02_wf_state_invariant :
  forall ops s, wf_state s = true -> reloads_hosts_ok s ops = true -> wf_state (run_ops s ops) = true.
Proof.
  intros ops s H Hh. apply wf_state_Inv. apply wf_state_Inv in H. exact (proj1 (run_ops_inv_sub ops s H Hh)).
Qed.
Print Assumptions C02_wf_state_invariant.

(* ... and from a well-formed database no history of commands, flushes and reloads adds an owner — whatever the
   id / name / hostmask collisions between accounts (the load then stops or drops hostmasks, C02/Reader.v), which
   C16's round-trip domain excludes.  Remaining hypotheses, and why:
     wf_state s            the starting database: in particular every password is hashed (an account with an
                           unhashed password would store the next `user set password` argument raw);
     reloads_hosts_ok      at reload points every stored hostmask is a single token: `user hostmask add "a!b@c\n"`
                           passes isUserHostmask (its `$` tolerates a trailing newline), and msg.prefix is an
                           arbitrary string in the model (the IRC parser never yields whitespace in it). *)
Theorem C02_no_new_owner_reload :
  forall ops s, wf_state s = true -> reloads_hosts_ok s ops = true ->
  owners_sub (s_users (run_ops s ops)) (s_users s).
Proof.
  intros ops s H Hh. apply wf_state_Inv in H. exact (proj2 (run_ops_inv_sub ops s H Hh)).
Qed.
Print Assumptions C02_no_new_owner_reload.

(* The earlier domain, kept because it is incomparable (it admits legacy accounts with unhashed passwords, but
   needs collision freedom): at every reload point the accounts written satisfy C16's users_dom. *)
Theorem C02_no_new_owner_reload_on_c16_domain :
  forall ops s, reloads_in_dom s ops = true -> owners_sub (s_users (run_ops s ops)) (s_users s).
Proof. exact run_ops_sub_dom. Qed.
Print Assumptions C02_no_new_owner_reload_on_c16_domain.

(* what a reload does to the accounts, collisions included: each loaded account is one that was written, with its
   capabilities re-added (a subset) and its hostmasks re-added or dropped *)
Theorem C02_reload_loads_only_written :
  forall l, forallb wf_user l = true -> forallb hosts_ok l = true ->
  forall v, In v (C16.Model.us_db (fst (C16.Model.read_users_from None (C16.Model.write_sorted_users l)))) ->
  C02.Reader.loaded_from l v.
Proof. intros l H1 H2. exact (proj1 (C02.Reader.read_gen l H1 H2)). Qed.
Print Assumptions C02_reload_loads_only_written.
