(* C02/Props.v — the property theorems, nothing else.
   Model: C02/Model.v (commands of plugins/User, Admin, Channel with their converters and gates, on top of the
   C03 / C04 / C13 / C16 models).  Proofs: C02/Lemmas.v (in-memory invariant), C02/Reload.v (flush+reload, witnesses).
   owner_in z us : some account with id z in us holds the capability owner;
   owners_sub us' us : every owner id of us' is an owner id of us. *)
From Coq Require Import List NArith ZArith Bool.
Import ListNotations.
Require Import Base.Wire Base.PyStr C02.Model C02.Lemmas C02.Reload.

(* the converter lists of the 18 modelled commands are the ones the model was written against *)
Theorem C02_specs_pinned : specs_ok gen.T02.SPECS = true.
Proof. vm_compute. reflexivity. Qed.
Print Assumptions C02_specs_pinned.

(* No history of commands (any text, any sender, any recognition oracle — in particular every sender who is
   not an owner), interleaved with flushes, adds an owner in memory. *)
Theorem C02_no_new_owner_mem :
  forall ops s, Forall no_reload ops -> owners_sub (s_users (run_ops s ops)) (s_users s).
Proof. exact run_ops_sub. Qed.
Print Assumptions C02_no_new_owner_mem.

(* key lemma behind it: whatever a command does to an account's capability set cannot put "owner" in it
   (Admin.capability.add refuses every spelling that folds to owner; a channel capability contains a comma) *)
Theorem C02_effect_never_grants_owner :
  forall s E text a cs, effect_of s E text = ESet a (MCaps cs) ->
  In a (s_users s) /\ (C03.Model.smem OWNER cs = true -> is_owner a = true).
Proof. intros s E text a cs H. pose proof (effect_of_ok s E text) as K. rewrite H in K. exact K. Qed.
Print Assumptions C02_effect_never_grants_owner.

(* Full statement of the reload clause (refuted on the pinned tree, findings F1 and F43):
     forall ops s, owners_sub (s_users (run_ops s ops)) (s_users s)        (ops may contain OReload)
   Proved on the decidable domain "at every reload point the accounts being written satisfy C16's users_dom
   (and no half-built record is left in IrcUserCreator.u)": *)
Theorem C02_no_new_owner_reload_on_domain :
  forall ops s, reloads_in_dom s ops = true -> owners_sub (s_users (run_ops s ops)) (s_users s).
Proof. exact run_ops_sub_dom. Qed.
Print Assumptions C02_no_new_owner_reload_on_domain.

(* one reload, stated directly on C16's domain *)
Theorem C02_reload_on_domain :
  forall s, reload_dom s = true -> owners_sub (s_users (reload s)) (s_users s).
Proof. exact reload_on_domain. Qed.
Print Assumptions C02_reload_on_domain.

(* F1: `user register "x\n  capability owner" pw` typed by an unregistered user (the tokenizer of C13 turns \n
   into LF), then flush+reload: account 4 is owner although only account 1 was. *)
Theorem C02_no_new_owner_reload_refuted :
  exists ops s, reloads_in_dom s ops = false /\ ~ owners_sub (s_users (run_ops s ops)) (s_users s).
Proof. exists h_f1, s0. exact reload_refuted_f1. Qed.
Print Assumptions C02_no_new_owner_reload_refuted.

(* F43: `admin capability add plain " owner"` by an admin who is not owner, then flush+reload: plain is owner.
   Every account NAME is a safe field here, so "names without CR/LF" is not a sufficient domain. *)
Theorem C02_no_new_owner_reload_refuted_by_capability :
  reloads_in_dom s0 h_f43 = false /\ names_safe (step s0 (OCmd E_adm t_f43)) = true /\
  ~ owners_sub (s_users (run_ops s0 h_f43)) (s_users s0).
Proof. destruct reload_refuted_f43 as [A B]. split; [exact A|]. split; [exact f43_names_safe|exact B]. Qed.
Print Assumptions C02_no_new_owner_reload_refuted_by_capability.
