(* C02/Props.v — the property theorems, nothing else.
   Model: C02/Model.v (commands of plugins/User, Admin, Channel with their converters and gates, on top of the
   C03 / C04 / C13 / C16 models).  Proofs: C02/Lemmas.v (in-memory owner invariant), C02/Bridge.v (C03 and C16
   capability algebra coincide), C02/Reader.v (the users.conf reader on well-formed accounts, collisions included),
   C02/Inv.v (well-formedness is an invariant of the histories), C02/Grant.v (capabilities grow only through
   an entitled add), C02/Reload.v (C16 domain, examples).
   owner_in z us : some account with id z in us holds the capability owner;
   owners_sub us' us : every owner id of us' is an owner id of us. *)
From Coq Require Import List NArith ZArith Bool.
Import ListNotations.
Require Import Base.Wire Base.PyStr C02.Model C02.Lemmas C02.Inv C02.Grant C02.Reload.
Require C02.Reader C16.Model.

(* the converter lists of the 18 modelled commands are the ones the model was written against *)
Theorem C02_specs_pinned : specs_ok gen.T02.SPECS = true.
Proof. vm_compute. reflexivity. Qed.
Print Assumptions C02_specs_pinned.

(* No history of commands (any text, any sender, any recognition oracle — in particular every sender who is
   not an owner), interleaved with flushes, adds an owner in memory. *)
Theorem C02_no_new_owner_mem :
  forall ops s, Forall no_reload ops -> owners_sub (s_users (run_ops s ops)) (s_users s).
Proof. exact run_ops_sub. Qed.
Print Assumptions C02_no_new_owner_mem.

(* key lemma behind it: whatever a command does to an account's capability set cannot put "owner" in it
   (Admin.capability.add refuses every spelling that folds to owner; a channel capability contains a comma) *)
Theorem C02_effect_never_grants_owner :
  forall s E text a cs, effect_of s E text = ESet a (MCaps cs) ->
  In a (s_users s) /\ (C03.Model.smem OWNER cs = true -> is_owner a = true).
Proof. intros s E text a cs H. pose proof (effect_of_ok s E text) as K. rewrite H in K. exact K. Qed.
Print Assumptions C02_effect_never_grants_owner.

(* ------------------------------------------------------------------ *)
(* Capabilities only grow through an entitled add.
   [had us z c]: some account with id z in us holds c.  [grant s E text z c] (C02/Grant.v): in state s the message
   `text` from E's sender is, as the code decides it, either
     - `admin capability add <n> <craw>`, not ignored, past the command-capability gate of the Admin plugin (the
       sender does not hold -admin, a default anticapability: C02_admin_gate), <n> resolves to account z,
       c = toLower(craw) is a single token, is not owner, and is an anticapability or a capability
       ircdb.checkCapability(sender, c) answers True for ("capabilities you don't have" as implemented), or
     - `channel capability add [<ch>] <n> <craw>`, not ignored, past the gate, where ch is the first argument if that is
       a channel name and otherwise the channel the message was said in, checkCapability(sender, "<ch>,op") is True,
       <n> resolves to z and c = toLower("<ch>,<word of craw>").
   Messages said in a channel are covered (e_chan E): the gate then also consults the channel's anticapabilities and
   defaultAllow, the User commands that require privacy refuse, and the channel argument may be left out. *)
Theorem C02_grow_only_entitled :
  forall ops s, Forall no_reload ops ->
  forall a' c, In a' (s_users (run_ops s ops)) -> C03.Model.smem c (caps a') = true ->
  had (s_users s) (aid a') c
  \/ exists pre E text post, ops = pre ++ OCmd E text :: post /\ grant (run_ops s pre) E text (aid a') c.
Proof. exact run_ops_grow. Qed.
Print Assumptions C02_grow_only_entitled.

(* one message *)
Theorem C02_grow_only_entitled_step :
  forall s E text a' c, In a' (s_users (step s (OCmd E text))) -> C03.Model.smem c (caps a') = true ->
  had (s_users s) (aid a') c \/ grant s E text (aid a') c.
Proof. exact step_grow. Qed.
Print Assumptions C02_grow_only_entitled_step.

(* with reloads anywhere in the history, from a well-formed database: a reload never adds a capability *)
Theorem C02_grow_only_entitled_with_reloads :
  forall ops s, wf_state s = true ->
  forall a' c, In a' (s_users (run_ops s ops)) -> C03.Model.smem c (caps a') = true ->
  had (s_users s) (aid a') c
  \/ exists pre E text post, ops = pre ++ OCmd E text :: post /\ grant (run_ops s pre) E text (aid a') c.
Proof. intros ops s H. apply run_ops_grow_reload. apply wf_state_Inv. exact H. Qed.
Print Assumptions C02_grow_only_entitled_with_reloads.

(* the relation is decidable; its boolean form grantb (C02/Model.v, extracted) is what the harness evaluates on the
   real before-state of every step for every capability that appeared *)
Theorem C02_grant_decidable :
  forall s E text z c, grantb s E text z c = true <-> grant s E text z c.
Proof. exact grantb_iff. Qed.
Print Assumptions C02_grant_decidable.

Theorem C02_grow_only_entitled_oracle :
  forall s E text a' c, In a' (s_users (step s (OCmd E text))) -> C03.Model.smem c (caps a') = true ->
  had (s_users s) (aid a') c \/ grantb s E text (aid a') c = true.
Proof.
  intros s E text a' c H1 H2. destruct (step_grow s E text a' c H1 H2) as [K|K]; [left; exact K|right].
  apply grantb_iff. exact K.
Qed.
Print Assumptions C02_grow_only_entitled_oracle.

(* a channel op only ever grants capabilities of the channel whose "<ch>,op" was verified for him: whenever a
   `channel capability add ...` message makes a capability c appear, the 'op' converter picked a channel ch -- the first
   argument if that is a channel name, else the channel the message was said in --, checkCapability(sender, "<ch>,op")
   is True, and c splits at its first comma into (toLower ch, toLower w): `... add #a <user> #b,op` can only yield
   "#a,#b,op", never "#b,op" *)
Theorem C02_chanop_scope :
  forall s E text rest a' c,
  tokens text = Some (chan_add_words ++ rest) ->
  In a' (s_users (step s (OCmd E text))) -> C03.Model.smem c (caps a') = true -> ~ had (s_users s) (aid a') c ->
  exists ch w r, conv_op s E rest = Some (ch, r) /\
                 (rest = ch :: r \/ (e_chan E = Some ch /\ rest = r)) /\
                 C03.Model.isChannel ch = true /\ check s E (ch ++ [COMMA] ++ OP) = Ok true /\
                 C03.Model.split_comma c = Some (C03.Model.fold ch, C03.Model.fold w).
Proof.
  intros s E text rest a' c Ht H1 H2 Hn.
  destruct (step_grow s E text a' c H1 H2) as [K|K]; [contradiction|].
  eapply grant_chan_scope; eassumption.
Qed.
Print Assumptions C02_chanop_scope.

(* "No password given" never authenticates: '' is what hostmask add/remove and changename pass to checkPassword when
   the caller gave no password, and an account that has no password is never authenticated by password at all
   (repair of C02.F44; before it both failed for an account without password / with the empty password). *)
Theorem C02_no_password_never_authenticates :
  forall a, check_pw a (Some []) = Ok false /\ (forall p, C16.Model.u_password (a_u a) = [] -> check_pw a p = Ok false).
Proof. intro a. split; [apply no_password_given|intros p H; apply no_password_set; exact H]. Qed.
Print Assumptions C02_no_password_never_authenticates.

(* an account id that did not exist before a message was created by `user register`, with the empty set *)
Theorem C02_new_account_empty :
  forall s E text a', In a' (s_users (step s (OCmd E text))) ->
  (exists a, In a (s_users s) /\ aid a = aid a') \/
  ((exists name pw addmask, effect_of s E text = ERegister name pw addmask) /\ caps a' = []).
Proof. exact step_new. Qed.
Print Assumptions C02_new_account_empty.

(* what passing the Admin gate contains: checkCapability(sender, "-admin") is not True *)
Theorem C02_admin_gate :
  forall s E, gate_blocked s E admin_add_words = false -> holds s E (DASH :: ADMIN) = false.
Proof. exact admin_gate_means. Qed.
Print Assumptions C02_admin_gate.

(* ------------------------------------------------------------------ *)
(* The reload clause, full statement up to the starting database:
   well-formedness of every account for users.conf (wf_state: ids >= 0; names safe fields and not hostmask-shaped;
   passwords hashed; capabilities folded single tokens other than -owner; hostmasks accepted by isUserHostmask, i.e.
   a token with at most one trailing newline; nicks and gpg keys as C16 requires; IrcUserCreator.u empty or a record
   with an id) is an invariant of ALL histories of commands, flushes and reloads ... *)
Theorem C02_wf_state_invariant :
  forall ops s, wf_state s = true -> wf_state (run_ops s ops) = true.
Proof.
  intros ops s H. apply wf_state_Inv. apply wf_state_Inv in H. exact (proj1 (run_ops_inv_sub ops s H)).
Qed.
Print Assumptions C02_wf_state_invariant.

(* Hostmasks.  ircutils.isUserHostmask is the only validation between `user hostmask add` / IrcUser.addHostmask and
   the "hostmask ..." line of users.conf.  The pattern in the source is the one the model mirrors; what the commands
   store passed it; and whatever passes it is a single whitespace-free token followed by at most one newline, hence
   occupies one line of the file (plus a blank one) and is read back as that token.  (A pattern that lets whitespace
   into the user part -- e.g. [^@]+ -- breaks the first and, mirrored in the model, the third statement.) *)
Theorem C02_hostmask_re_pinned : hostmask_re_ok gen.T02.USERHOSTMASK_RE = true.
Proof. vm_compute. reflexivity. Qed.
Print Assumptions C02_hostmask_re_pinned.

Theorem C02_hostmask_add_validated :
  forall s E text a h, effect_of s E text = ESet a (MHostAdd h) -> C16.Model.is_user_hostmask h = true.
Proof. intros s E text a h H. pose proof (effect_of_inv s E text) as K. rewrite H in K. exact (proj2 K). Qed.
Print Assumptions C02_hostmask_add_validated.

Theorem C02_hostmask_one_line :
  forall h, C16.Model.is_user_hostmask h = true ->
  C16.Model.token (strip_lf h) = true /\ (strip_lf h = h \/ h = strip_lf h ++ [C16.Model.LF]).
Proof. intros h H. split; [exact (C02.Reader.hm_token h H)|exact (C02.Reader.strip_lf_cases h)]. Qed.
Print Assumptions C02_hostmask_one_line.

(* the line separators of the REAL reader (unpreserve.Reader.readFile, regenerated table READER_LINESEPS) are exactly
   those of the model's reader, so the theorems below are about the line structure the bot really sees; and each of
   them is refused inside a user name by User._checkName (a reader that also ends lines at \x0b \x0c \x1c-\x1e \x85
   U+2028 U+2029, e.g. a codecs StreamReader, breaks both halves) *)
Theorem C02_reader_lineseps :
  forall c, mem c gen.T02.READER_LINESEPS = C16.Model.is_nl c
            /\ (mem c gen.T02.READER_LINESEPS = true -> forall n, name_valid n = true -> mem c n = false).
Proof.
  intro c. split; [exact (lineseps_model _ _ c lineseps_ok_current)|].
  intros Hc n Hn. exact (lineseps_refused _ c n lineseps_ok_current Hc Hn).
Qed.
Print Assumptions C02_reader_lineseps.

(* ... and from a well-formed database no history adds an owner, whatever the id / name / hostmask collisions between
   accounts (the load then stops or drops hostmasks: C02/Reader.v) and whatever hostmasks were added (a trailing
   newline is written as a blank line, which the reader skips).  The only hypothesis left is on the starting
   database; its essential part is that every password is hashed (an account with an unhashed password would store
   the next `user set password` argument raw) — true of every account the bot itself creates. *)
Theorem C02_no_new_owner_reload :
  forall ops s, wf_state s = true -> owners_sub (s_users (run_ops s ops)) (s_users s).
Proof.
  intros ops s H. apply wf_state_Inv in H. exact (proj2 (run_ops_inv_sub ops s H)).
Qed.
Print Assumptions C02_no_new_owner_reload.

(* The earlier domain, kept because it is incomparable (it admits legacy accounts with unhashed passwords, but
   needs collision freedom): at every reload point the accounts written satisfy C16's users_dom. *)
Theorem C02_no_new_owner_reload_on_c16_domain :
  forall ops s, reloads_in_dom s ops = true -> owners_sub (s_users (run_ops s ops)) (s_users s).
Proof. exact run_ops_sub_dom. Qed.
Print Assumptions C02_no_new_owner_reload_on_c16_domain.

(* what a reload does to the accounts, collisions included: each loaded account is one that was written, with its
   capabilities re-added (a subset) and its hostmasks (minus a trailing newline) re-added or dropped *)
Theorem C02_reload_loads_only_written :
  forall l, forallb wf_user l = true ->
  forall v, In v (C16.Model.us_db (fst (C16.Model.read_users_from None (C16.Model.write_sorted_users l)))) ->
  C02.Reader.loaded_from l v.
Proof. intros l H1. exact (proj1 (C02.Reader.read_gen l H1)). Qed.
Print Assumptions C02_reload_loads_only_written.
