(* C02/Grant.v — a capability appears in an account only through an entitled grant:
   Admin.capability.add by a caller who passed the admin gate, for a capability the code lets him give,
   or Channel.capability.add by a caller holding #channel,op; a new account starts with the empty set. *)
From Coq Require Import List NArith ZArith Bool Arith Lia.
Import ListNotations.
Require Import Base.Wire Base.PyStr C02.Model C02.Lemmas C02.Inv.
Require C03.Model C03.Fold C16.Model.
Open Scope N_scope.

Definition ADMIN : str := [97; 100; 109; 105; 110].

(* what "entitled" means, as the code implements it, in the state and for the sender of the message *)
Inductive grant (s : st) (E : env) (text : str) (z : Z) (c : str) : Prop :=
| GAdmin n craw u cs :
    ignored s E = false ->
    tokens text = Some (admin_add_words ++ [n; craw]) ->          (* the message is `admin capability add <n> <craw>` *)
    gate_blocked s E admin_add_words = false ->                   (* checkCommandCapability: -admin etc. not held *)
    conv_other s E n = Some u -> aid u = z ->                     (* the account named by <n> *)
    c = C03.Model.fold craw ->                                    (* 'lowered' *)
    C16.Model.token c = true ->                                   (* single token (repair of C02.F43) *)
    C03.Model.fold c <> OWNER ->                                  (* never owner *)
    (C03.Model.isAntiCapability c = true \/ check s E c = Ok true) ->   (* "capabilities you don't have" rule *)
    C03.Model.ucs_add (caps u) c = Ok cs ->
    grant s E text z c
| GChan args ch n craw w u cs :
    ignored s E = false ->
    tokens text = Some (chan_add_words ++ args) ->                (* `channel capability add [<ch>] <n> <craw>` *)
    gate_blocked s E chan_add_words = false ->
    conv_op s E args = Some (ch, [n; craw]) ->                    (* 'op' converter: ch is the first argument if that is a
                                                                     channel name, else the channel the message was said in;
                                                                     and checkCapability(sender, "<ch>,op") is True (conv_op_spec) *)
    conv_other s E n = Some u -> aid u = z ->
    C16.Model.split_ws craw = [w] ->
    c = C03.Model.fold (ch ++ [COMMA] ++ w) ->                    (* only a capability of that channel *)
    C03.Model.ucs_add (caps u) (ch ++ [COMMA] ++ w) = Ok cs ->
    grant s E text z c.

Lemma holds_check s E c : holds s E c = true -> check s E c = Ok true.
Proof. unfold holds. destruct (check s E c) as [[|]|]; try discriminate. reflexivity. Qed.

(* the admin gate contains the test that the caller does not hold -admin (a default capability: only
   accounts with the admin capability, or owners, pass) *)
Lemma admin_gate_means s E : gate_blocked s E admin_add_words = false -> holds s E (DASH :: ADMIN) = false.
Proof.
  unfold gate_blocked. intro H. cbn [gate_names admin_add_words last prefixes existsb app] in H.
  repeat match type of H with (_ || _ = false) => apply orb_false_iff in H as [? H] end.
  match goal with K : name_blocked s E [97; 100; 109; 105; 110] = false |- _ => unfold name_blocked in K; apply orb_false_iff in K as [K _]; exact K end.
Qed.

(* what the 'op' converter established *)
Lemma conv_op_spec s E args ch r :
  conv_op s E args = Some (ch, r) ->
  C03.Model.isChannel ch = true /\ check s E (ch ++ [COMMA] ++ OP) = Ok true /\
  (args = ch :: r \/ (e_chan E = Some ch /\ args = r)).
Proof.
  unfold conv_op. intro H.
  destruct (match args with [] => _ | _ :: _ => _ end) as [[ch0 r0]|] eqn:P; [|discriminate].
  destruct (C03.Model.isChannel ch0) eqn:K; [|discriminate].
  destruct (holds s E (ch0 ++ [COMMA] ++ OP)) eqn:K2; [|discriminate].
  inversion H; subst ch0 r0. split; [exact K|]. split; [apply holds_check; exact K2|].
  destruct args as [|x xs].
  - destruct (e_chan E) as [c0|]; [|discriminate]. inversion P; subst. right. auto.
  - destruct (C03.Model.isChannel x).
    + inversion P; subst. left. reflexivity.
    + destruct (e_chan E) as [c0|]; [|discriminate]. inversion P; subst. right. auto.
Qed.

(* ---- command table ---- *)
Lemma strip_words_app ws : forall toks args, strip_words ws toks = Some args -> toks = ws ++ args.
Proof.
  induction ws as [|w ws IH]; intros toks args H; simpl in H.
  - inversion H. reflexivity.
  - destruct toks as [|t toks]; [discriminate|].
    destruct (seq_eqb w t) eqn:E; [|discriminate]. apply seq_eqb_eq in E. subst t.
    simpl. f_equal. apply IH. exact H.
Qed.

Lemma find_cmd_spec tbl : forall toks ws k args,
  find_cmd tbl toks = Some (ws, k, args) -> In (ws, k) tbl /\ toks = ws ++ args.
Proof.
  induction tbl as [|[ws0 k0] r IH]; intros toks ws k args H; simpl in H; [discriminate|].
  destruct (strip_words ws0 toks) as [a|] eqn:S.
  - inversion H; subst. split; [left; reflexivity|apply strip_words_app; exact S].
  - destruct (IH _ _ _ _ H) as [A B]. split; [right; exact A|exact B].
Qed.

Lemma words_of_acapadd ws : In (ws, ACapAdd) commands -> ws = admin_add_words.
Proof.
  unfold commands. intro H. simpl in H.
  repeat (destruct H as [H|H]; [inversion H; try reflexivity|]). contradiction.
Qed.
Lemma words_of_ccapadd ws : In (ws, CCapAdd) commands -> ws = chan_add_words.
Proof.
  unfold commands. intro H. simpl in H.
  repeat (destruct H as [H|H]; [inversion H; try reflexivity|]). contradiction.
Qed.

(* ---- capability sets ---- *)
Lemma smem_sremove' x y S : C03.Model.smem x (C03.Model.sremove y S) = true -> C03.Model.smem x S = true.
Proof. apply smem_sremove. Qed.

Lemma ucs_add_mem S c cs x :
  C03.Model.ucs_add S c = Ok cs -> C03.Model.smem x cs = true ->
  C03.Model.smem x S = true \/ x = C03.Model.fold c.
Proof.
  unfold C03.Model.ucs_add. destruct (seq_eqb _ _); [discriminate|].
  unfold C03.Model.cs_add. rewrite C03.Fold.fold_idem.
  destruct (C03.Model.invertCapability (C03.Model.fold c)) as [inv|]; simpl; [|discriminate].
  intro H. inversion H; subst; clear H.
  destruct (C03.Model.smem (C03.Model.fold c) (C03.Model.sremove inv S)).
  - intro K. left. eapply smem_sremove; eauto.
  - rewrite smem_app. intro K. apply orb_true_iff in K as [K|K].
    + left. eapply smem_sremove; eauto.
    + right. apply seq_eqb_eq in K. exact K.
Qed.


(* ---- which commands write capability sets, and when ---- *)
Ltac crackD D :=
  repeat match type of D with
         | (let '(_, _) := ?x in _) = _ => destruct x
         | match ?x with _ => _ end = _ => destruct x eqn:?; try discriminate
         | (if ?x then _ else _) = _ => destruct x eqn:?; try discriminate
         end.

Lemma acapadd_grant s E text n craw a cs :
  ignored s E = false -> tokens text = Some (admin_add_words ++ [n; craw]) ->
  gate_blocked s E admin_add_words = false ->
  d_acapadd s E [n; craw] = ESet a (MCaps cs) ->
  forall c, C03.Model.smem c cs = true -> C03.Model.smem c (caps a) = true \/ grant s E text (aid a) c.
Proof.
  intros Hi Ht Hg D c Hc. unfold d_acapadd in D. cbv zeta in D.
  destruct (conv_other s E n) as [u|] eqn:Cu; [|discriminate].
  destruct (negb (C16.Model.token (C03.Model.fold craw))) eqn:Tk; [discriminate|].
  destruct (seq_eqb (C03.Model.fold (C03.Model.fold craw)) (C03.Model.fold OWNER)) eqn:Ow; [discriminate|].
  destruct (if C03.Model.isAntiCapability (C03.Model.fold craw) then true else holds s E (C03.Model.fold craw)) eqn:En;
    [|discriminate].
  destruct (C03.Model.ucs_add (caps u) (C03.Model.fold craw)) as [cs'|] eqn:Ad; [|discriminate].
  inversion D; subst a cs'; clear D.
  destruct (ucs_add_mem _ _ _ _ Ad Hc) as [K|K]; [left; exact K|right].
  rewrite C03.Fold.fold_idem in K. subst c.
  apply (GAdmin s E text (aid u) _ n craw u cs); try assumption; try reflexivity.
  - apply negb_false_iff in Tk. exact Tk.
  - apply seq_eqb_neq in Ow. rewrite fold_OWNER in Ow. exact Ow.
  - destruct (C03.Model.isAntiCapability (C03.Model.fold craw)); [left; reflexivity|right; apply holds_check; exact En].
Qed.

Lemma ccapadd_grant s E text args a cs :
  ignored s E = false -> tokens text = Some (chan_add_words ++ args) ->
  gate_blocked s E chan_add_words = false ->
  d_ccap CCapAdd s E args = ESet a (MCaps cs) ->
  forall c, C03.Model.smem c cs = true -> C03.Model.smem c (caps a) = true \/ grant s E text (aid a) c.
Proof.
  intros Hi Ht Hg D c Hc. unfold d_ccap in D.
  destruct (conv_op s E args) as [[ch r]|] eqn:CO; [|discriminate].
  destruct r as [|n [|craw [|x r]]]; try discriminate.
  destruct (conv_other s E n) as [u|] eqn:Cu; [|discriminate].
  destruct (is_capname craw); [|discriminate].
  destruct (C16.Model.split_ws craw) as [|w [|w2 ws2]] eqn:Sp; try discriminate.
  destruct (C03.Model.ucs_add (caps u) (ch ++ [COMMA] ++ w)) as [cs'|] eqn:Ad; [|discriminate].
  inversion D; subst a cs'; clear D.
  destruct (ucs_add_mem _ _ _ _ Ad Hc) as [K|K]; [left; exact K|right]. subst c.
  apply (GChan s E text (aid u) _ args ch n craw w u cs); try assumption; try reflexivity.
Qed.

Lemma ccap_other k s E args a cs :
  k <> CCapAdd -> d_ccap k s E args = ESet a (MCaps cs) ->
  forall c, C03.Model.smem c cs = true -> C03.Model.smem c (caps a) = true.
Proof.
  intros Hk D c Hc. unfold d_ccap in D.
  destruct (conv_op s E args) as [[ch r]|]; [|discriminate].
  destruct k; try congruence; crackD D; inversion D; subst; eapply smem_sremove; eauto.
Qed.

Lemma acapremove_sub s E args a cs :
  d_acapremove s E args = ESet a (MCaps cs) ->
  forall c, C03.Model.smem c cs = true -> C03.Model.smem c (caps a) = true.
Proof.
  intros D c Hc. unfold d_acapremove in D. cbv zeta in D. crackD D. inversion D; subst. eapply smem_sremove; eauto.
Qed.

(* the other commands never write a capability set *)
Lemma no_caps_register s E args a cs : d_register s E args <> ESet a (MCaps cs).
Proof. intro D. unfold d_register in D. crackD D. Qed.
Lemma no_caps_unregister s E args a cs : d_unregister s E args <> ESet a (MCaps cs).
Proof. intro D. unfold d_unregister in D. cbv beta zeta in D. crackD D. Qed.
Lemma no_caps_changename s E args a cs : d_changename s E args <> ESet a (MCaps cs).
Proof. intro D. unfold d_changename in D. cbv beta zeta in D. crackD D. Qed.
Lemma no_caps_identify s E args a cs : d_identify s E args <> ESet a (MCaps cs).
Proof. intro D. unfold d_identify in D. crackD D. Qed.
Lemma no_caps_unidentify s E args a cs : d_unidentify s E args <> ESet a (MCaps cs).
Proof. intro D. unfold d_unidentify in D. crackD D. Qed.
Lemma no_caps_hostadd s E args a cs : d_hostadd s E args <> ESet a (MCaps cs).
Proof. intro D. unfold d_hostadd in D. cbv beta zeta in D. crackD D. Qed.
Lemma no_caps_hostremove s E args a cs : d_hostremove s E args <> ESet a (MCaps cs).
Proof. intro D. unfold d_hostremove in D. cbv beta zeta in D. crackD D. Qed.
Lemma no_caps_setpassword s E args a cs : d_setpassword s E args <> ESet a (MCaps cs).
Proof. intro D. unfold d_setpassword in D. crackD D. Qed.
Lemma no_caps_setsecure s E args a cs : d_setsecure s E args <> ESet a (MCaps cs).
Proof. intro D. unfold d_setsecure in D. cbv beta zeta in D. crackD D. Qed.
Lemma no_caps_aignadd s E args a cs : d_aignadd s E args <> ESet a (MCaps cs).
Proof. intro D. unfold d_aignadd in D. cbv beta zeta in D. crackD D. Qed.
Lemma no_caps_aignremove s E args a cs : d_aignremove s E args <> ESet a (MCaps cs).
Proof. intro D. unfold d_aignremove in D. crackD D. Qed.

(* ---- one message ---- *)
Lemma effect_of_grant s E text a cs :
  effect_of s E text = ESet a (MCaps cs) ->
  forall c, C03.Model.smem c cs = true -> C03.Model.smem c (caps a) = true \/ grant s E text (aid a) c.
Proof.
  unfold effect_of. intro D.
  destruct (ignored s E) eqn:Hi; [discriminate|].
  destruct (tokens text) as [toks|] eqn:Ht; [|discriminate].
  destruct (find_cmd commands toks) as [[[ws k] args]|] eqn:Hf; [|discriminate].
  destruct (gate_blocked s E ws) eqn:Hg; [discriminate|].
  destruct (find_cmd_spec _ _ _ _ _ Hf) as [Hin Etoks]. subst toks.
  intros c Hc.
  unfold decide in D. destruct (needs_private k && negb (in_private E)); [discriminate|].
  destruct k; cbv iota in D;
    try (exfalso; first [ eapply no_caps_register; eassumption | eapply no_caps_unregister; eassumption
                        | eapply no_caps_changename; eassumption | eapply no_caps_identify; eassumption
                        | eapply no_caps_unidentify; eassumption | eapply no_caps_hostadd; eassumption
                        | eapply no_caps_hostremove; eassumption | eapply no_caps_setpassword; eassumption
                        | eapply no_caps_setsecure; eassumption | eapply no_caps_aignadd; eassumption
                        | eapply no_caps_aignremove; eassumption ]).
  - (* admin capability add *)
    rewrite (words_of_acapadd _ Hin) in *.
    assert (Ea : exists n craw, args = [n; craw]).
    { unfold d_acapadd in D. destruct args as [|n [|craw [|x r]]]; try discriminate. eauto. }
    destruct Ea as (n & craw & Ea). subst args.
    eapply acapadd_grant; eassumption.
  - (* admin capability remove *) left. eapply acapremove_sub; eassumption.
  - (* channel capability add *)
    rewrite (words_of_ccapadd _ Hin) in *. eapply ccapadd_grant; eassumption.
  - left. eapply ccap_other; [|eassumption|eassumption]. discriminate.
  - left. eapply ccap_other; [|eassumption|eassumption]. discriminate.
  - left. eapply ccap_other; [|eassumption|eassumption]. discriminate.
  - left. eapply ccap_other; [|eassumption|eassumption]. discriminate.
Qed.

Definition had (us : list acct) (z : Z) (c : str) : Prop :=
  exists a, In a us /\ aid a = z /\ C03.Model.smem c (caps a) = true.

Opaque mutate.
Lemma step_grow s E text a' c :
  In a' (s_users (step s (OCmd E text))) -> C03.Model.smem c (caps a') = true ->
  had (s_users s) (aid a') c \/ grant s E text (aid a') c.
Proof.
  cbn [step]. pose proof (effect_of_ok s E text) as Hok. pose proof (effect_of_grant s E text) as Hgr.
  destruct (effect_of s E text) as [|a m|z|name pw addmask|ch ch'|h|h] eqn:De;
    intros Hin Hc; try (left; exists a'; auto; fail).
  - destruct Hok as [Ha _].
    assert (Hcore : forall x, aid x = aid a -> (caps x = caps (mutate a m)) -> C03.Model.smem c (caps x) = true ->
                              had (s_users s) (aid x) c \/ grant s E text (aid x) c).
    { intros x Hx Hcx Hsm. rewrite Hx. rewrite Hcx, caps_mutate in Hsm.
      destruct m; try (left; exists a; auto; fail).
      destruct (Hgr a cs eq_refl c Hsm) as [K|K]; [left; exists a; auto|right; exact K]. }
    assert (H1 : forall x, In x (put (mutate a m) (s_users s)) -> C03.Model.smem c (caps x) = true ->
                           had (s_users s) (aid x) c \/ grant s E text (aid x) c).
    { intros x Hx Hsm. destruct (put_In _ _ _ Hx) as [K|K].
      - subst x. apply Hcore; [apply aid_mutate|reflexivity|exact Hsm].
      - left. exists x. auto. }
    destruct (eset_users s E a m) as [K|[K|(h & Em & K)]]; rewrite K in Hin.
    + apply H1; assumption.
    + left. exists a'. auto.
    + subst m. destruct (put_In _ _ _ Hin) as [K2|K2]; [|apply H1; assumption].
      subst a'. apply Hcore.
      * rewrite !aid_mutate. reflexivity.
      * rewrite !caps_mutate. reflexivity.
      * exact Hc.
  - cbn [apply_effect with_users s_users] in Hin. unfold del in Hin. apply filter_In in Hin as [Hin _]. left. exists a'. auto.
  - destruct (ereg_shape s E name pw addmask) as (_ & _ & [K|[K|[_ K]]]); rewrite K in Hin.
    + unfold del in Hin. apply filter_In in Hin as [Hin _]. left. exists a'. auto.
    + destruct (put_In _ _ _ Hin) as [K2|K2]; [|left; exists a'; auto]. subst a'. exfalso. cbn in Hc. discriminate.
    + destruct (put_In _ _ _ Hin) as [K2|K2]; [|left; exists a'; auto]. subst a'. exfalso. cbn in Hc. discriminate.
Qed.
Transparent mutate.

(* a new account id appears only through `user register`, with the empty capability set *)
Opaque mutate.
Lemma step_new s E text a' :
  In a' (s_users (step s (OCmd E text))) ->
  (exists a, In a (s_users s) /\ aid a = aid a') \/
  ((exists name pw addmask, effect_of s E text = ERegister name pw addmask) /\ caps a' = []).
Proof.
  cbn [step]. pose proof (effect_of_ok s E text) as Hok.
  destruct (effect_of s E text) as [|a m|z|name pw addmask|ch ch'|h|h] eqn:De;
    intros Hin; try (left; exists a'; auto; fail).
  - destruct Hok as [Ha _]. left.
    assert (H1 : forall x, In x (put (mutate a m) (s_users s)) -> exists a0, In a0 (s_users s) /\ aid a0 = aid x).
    { intros x Hx. destruct (put_In _ _ _ Hx) as [K|K]; [subst x; exists a; split; [exact Ha|symmetry; apply aid_mutate]|exists x; auto]. }
    destruct (eset_users s E a m) as [K|[K|(h & Em & K)]]; rewrite K in Hin.
    + apply H1; assumption.
    + exists a'. auto.
    + subst m. destruct (put_In _ _ _ Hin) as [K2|K2]; [|apply H1; assumption].
      subst a'. exists a. split; [exact Ha|]. rewrite !aid_mutate. reflexivity.
  - cbn [apply_effect with_users s_users] in Hin. unfold del in Hin. apply filter_In in Hin as [Hin _]. left. exists a'. auto.
  - destruct (ereg_shape s E name pw addmask) as (_ & _ & [K|[K|[_ K]]]); rewrite K in Hin.
    + unfold del in Hin. apply filter_In in Hin as [Hin _]. left. exists a'. auto.
    + destruct (put_In _ _ _ Hin) as [K2|K2]; [|left; exists a'; auto]. right. split; [eauto|]. subst a'. reflexivity.
    + destruct (put_In _ _ _ Hin) as [K2|K2]; [|left; exists a'; auto]. right. split; [eauto|]. subst a'. reflexivity.
Qed.
Transparent mutate.

(* ---- histories ---- *)
Lemma run_ops_app s a b : run_ops s (a ++ b) = run_ops (run_ops s a) b.
Proof. unfold run_ops. apply fold_left_app. Qed.

Lemma run_ops_grow ops : forall s, Forall no_reload ops ->
  forall a' c, In a' (s_users (run_ops s ops)) -> C03.Model.smem c (caps a') = true ->
  had (s_users s) (aid a') c
  \/ exists pre E text post, ops = pre ++ OCmd E text :: post /\ grant (run_ops s pre) E text (aid a') c.
Proof.
  induction ops as [|o r IH]; intros s Hnr a' c Hin Hc.
  - left. exists a'. auto.
  - inversion Hnr as [|? ? Ho Hr]; subst.
    change (run_ops s (o :: r)) with (run_ops (step s o) r) in Hin.
    destruct (IH (step s o) Hr a' c Hin Hc) as [(a1 & H1 & Hid & Hc1)|(pre & E & text & post & Eq & G)].
    + destruct o as [E text| |]; [|left; exists a1; auto|contradiction].
      destruct (step_grow s E text a1 c H1 Hc1) as [K|K].
      * left. rewrite <- Hid. exact K.
      * right. exists [], E, text, r. split; [reflexivity|]. rewrite <- Hid. exact K.
    + right. exists (o :: pre), E, text, post. split; [rewrite Eq; reflexivity|exact G].
Qed.

(* the same with reloads anywhere in the history, from a well-formed database: a reload never adds a capability *)
Lemma run_ops_grow_reload ops : forall s, Inv s ->
  forall a' c, In a' (s_users (run_ops s ops)) -> C03.Model.smem c (caps a') = true ->
  had (s_users s) (aid a') c
  \/ exists pre E text post, ops = pre ++ OCmd E text :: post /\ grant (run_ops s pre) E text (aid a') c.
Proof.
  induction ops as [|o r IH]; intros s HI a' c Hin Hc.
  - left. exists a'. auto.
  - change (run_ops s (o :: r)) with (run_ops (step s o) r) in Hin.
    destruct (step_inv_sub s o HI) as [HI' _].
    destruct (IH (step s o) HI' a' c Hin Hc) as [(a1 & H1 & Hid & Hc1)|(pre & E & text & post & Eq & G)].
    + destruct o as [E text| |].
      * destruct (step_grow s E text a1 c H1 Hc1) as [K|K].
        -- left. rewrite <- Hid. exact K.
        -- right. exists [], E, text, r. split; [reflexivity|]. rewrite <- Hid. exact K.
      * left. exists a1. auto.
      * left. destruct (reload_caps s a1 c HI H1 Hc1) as (a & Ha & Hia & Hca). exists a. split; [exact Ha|]. split; [congruence|exact Hca].
    + right. exists (o :: pre), E, text, post. split; [rewrite Eq; reflexivity|exact G].
Qed.

(* ------------------------------------------------------------------ *)
(* the decidable form run by the harness on the real states is the same relation *)
Lemma strip_words_self ws a : strip_words ws (ws ++ a) = Some a.
Proof. induction ws as [|w ws IH]; simpl; [reflexivity|]. rewrite seq_eqb_refl. exact IH. Qed.

Lemma check_holds s E c : check s E c = Ok true -> holds s E c = true.
Proof. unfold holds. intro H. rewrite H. reflexivity. Qed.

Lemma grantb_sound s E text z c : grantb s E text z c = true -> grant s E text z c.
Proof.
  unfold grantb. intro H. apply andb_true_iff in H as [Hi H]. apply negb_true_iff in Hi.
  destruct (tokens text) as [toks|] eqn:Ht; [|discriminate].
  destruct (strip_words admin_add_words toks) as [args|] eqn:Sa.
  - apply strip_words_app in Sa. subst toks.
    destruct args as [|n [|craw [|x r]]]; try discriminate.
    unfold grantb_admin in H. apply andb_true_iff in H as [Hg H]. apply negb_true_iff in Hg.
    destruct (conv_other s E n) as [u|] eqn:Cu; [|discriminate].
    repeat match type of H with (_ && _ = true) => apply andb_true_iff in H as [H ?] end.
    match goal with K : seq_eqb c _ = true |- _ => apply seq_eqb_eq in K; subst c end.
    destruct (C03.Model.ucs_add (caps u) (C03.Model.fold craw)) as [cs|] eqn:Ad; [|discriminate].
    apply (GAdmin s E text z _ n craw u cs); try assumption; try reflexivity.
    + apply Z.eqb_eq. assumption.
    + match goal with K : negb (seq_eqb _ OWNER) = true |- _ => apply negb_true_iff, seq_eqb_neq in K; exact K end.
    + match goal with K : _ || _ = true |- _ => apply orb_true_iff in K as [K|K]; [left; exact K|right; apply holds_check; exact K] end.
  - destruct (strip_words chan_add_words toks) as [args|] eqn:Sc; [|discriminate].
    apply strip_words_app in Sc. subst toks.
    unfold grantb_chan in H. apply andb_true_iff in H as [Hg H]. apply negb_true_iff in Hg.
    destruct (conv_op s E args) as [[ch r]|] eqn:CO; [|discriminate].
    destruct r as [|n [|craw [|x r]]]; try discriminate.
    destruct (conv_other s E n) as [u|] eqn:Cu; [|discriminate].
    destruct (C16.Model.split_ws craw) as [|w [|w2 ws2]] eqn:Sp; try discriminate.
    apply andb_true_iff in H as [H K3]. apply andb_true_iff in H as [K1 K2].
    apply seq_eqb_eq in K2. subst c.
    destruct (C03.Model.ucs_add (caps u) (ch ++ [COMMA] ++ w)) as [cs|] eqn:Ad; [|discriminate].
    apply (GChan s E text z _ args ch n craw w u cs); try assumption; try reflexivity.
    apply Z.eqb_eq. assumption.
Qed.

Lemma strip_admin_chan a : strip_words admin_add_words (chan_add_words ++ a) = None.
Proof. reflexivity. Qed.

Lemma grantb_complete s E text z c : grant s E text z c -> grantb s E text z c = true.
Proof.
  intros [n craw u cs Hi Ht Hg Cu Hz Ec Tk Ow En Ad | args ch n craw w u cs Hi Ht Hg CO Cu Hz Sp Ec Ad];
    unfold grantb; rewrite Hi, Ht; cbn [negb andb].
  - rewrite strip_words_self. unfold grantb_admin. rewrite Hg, Cu. cbn [negb andb].
    subst c z. rewrite Z.eqb_refl, seq_eqb_refl, Tk, Ad. cbn [andb is_ok].
    apply seq_eqb_neq in Ow. rewrite Ow. cbn [negb andb]. rewrite andb_true_r.
    destruct En as [K|K]; [rewrite K; reflexivity|rewrite (check_holds _ _ _ K); apply orb_true_r].
  - rewrite strip_admin_chan, strip_words_self. unfold grantb_chan. rewrite Hg, CO, Cu, Sp. cbn [negb andb].
    subst c z. rewrite Z.eqb_refl, seq_eqb_refl, Ad. reflexivity.
Qed.

Lemma grantb_iff s E text z c : grantb s E text z c = true <-> grant s E text z c.
Proof. split; [apply grantb_sound|apply grantb_complete]. Qed.

(* ------------------------------------------------------------------ *)
(* scope of a channel-op grant: the capability granted by `channel capability add <ch> ...` is a capability of
   that very channel, the one for which the caller's "<ch>,op" was checked — never of another channel *)
Lemma grant_chan_scope s E text z c rest :
  grant s E text z c -> tokens text = Some (chan_add_words ++ rest) ->
  exists ch w r, conv_op s E rest = Some (ch, r) /\
                 (rest = ch :: r \/ (e_chan E = Some ch /\ rest = r)) /\
                 C03.Model.isChannel ch = true /\ check s E (ch ++ [COMMA] ++ OP) = Ok true /\
                 C03.Model.split_comma c = Some (C03.Model.fold ch, C03.Model.fold w).
Proof.
  intros [n craw u cs Hi Ht Hg Cu Hz Ec Tk Ow En Ad | args ch n craw w u cs Hi Ht Hg CO Cu Hz Sp Ec Ad] Hr.
  - rewrite Ht in Hr. inversion Hr.
  - rewrite Ht in Hr. inversion Hr as [Hr']. subst rest.
    destruct (conv_op_spec _ _ _ _ _ CO) as (Hch & Hop & Hsrc).
    exists ch, w, [n; craw]. split; [exact CO|]. split; [exact Hsrc|]. split; [exact Hch|]. split; [exact Hop|].
    subst c. unfold C03.Model.split_comma.
    change (ch ++ [COMMA] ++ w) with (ch ++ COMMA :: w). rewrite C03.Fold.fold_app.
    change (C03.Model.fold (COMMA :: w)) with (C03.Model.fold_char COMMA :: C03.Model.fold w).
    change (C03.Model.fold_char COMMA) with (C03.Model.fold_char C03.Model.COMMA).
    rewrite C03.Fold.fold_comma. apply split1_char.
    rewrite C03.Fold.fold_mem by reflexivity.
    unfold C03.Model.isChannel in Hch.
    repeat match type of Hch with (_ && _ = true) => apply andb_true_iff in Hch as [Hch ?] end.
    match goal with K : negb (mem C03.Model.COMMA ch) = true |- _ => apply negb_true_iff in K; exact K end.
Qed.

(* ------------------------------------------------------------------ *)
(* "no password given" (the '' the commands pass to checkPassword) never authenticates, and an account without
   password is never authenticated by password (repair of C02.F44: the first statement of IrcUser.checkPassword) *)
Lemma no_password_given a : check_pw a (Some []) = Ok false.
Proof. reflexivity. Qed.
Lemma no_password_set a p : C16.Model.u_password (a_u a) = [] -> check_pw a p = Ok false.
Proof.
  intro H. unfold check_pw. destruct p as [p|]; [|reflexivity]. rewrite H. cbn [nonempty negb].
  rewrite orb_true_r. reflexivity.
Qed.
