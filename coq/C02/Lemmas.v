(* C02/Lemmas.v — the in-memory owner invariant: no command of the model adds an owner. *)
From Coq Require Import List NArith ZArith Bool Arith Lia.
Import ListNotations.
Require Import Base.Wire Base.PyStr C02.Model.
Require C03.Model C03.Fold C16.Model.

(* ---- the spec: the set of owner ids ---- *)
Definition owner_in (z : Z) (us : list acct) : Prop :=
  exists a, In a us /\ aid a = z /\ is_owner a = true.
Definition owners_sub (us' us : list acct) : Prop := forall z, owner_in z us' -> owner_in z us.

Lemma owners_sub_refl us : owners_sub us us.
Proof. intros z H; exact H. Qed.
Lemma owners_sub_trans a b c : owners_sub a b -> owners_sub b c -> owners_sub a c.
Proof. intros H1 H2 z H. apply H2, H1, H. Qed.

Lemma put_In a us x : In x (put a us) -> x = a \/ In x us.
Proof.
  induction us as [|b r IH]; simpl; intro H.
  - destruct H as [H|H]; [left; auto|contradiction].
  - destruct (Z.eqb (aid b) (aid a)).
    + destruct H as [H|H]; [left; auto|right; right; exact H].
    + destruct H as [H|H]; [right; left; exact H|].
      destruct (IH H) as [H'|H']; [left; exact H'|right; right; exact H'].
Qed.

Lemma put_In_self a us : In a (put a us).
Proof.
  induction us as [|b r IH]; simpl; [left; reflexivity|].
  destruct (Z.eqb (aid b) (aid a)); [left; reflexivity|right; exact IH].
Qed.

Lemma put_sub a' a us :
  In a us -> aid a' = aid a -> (is_owner a' = true -> is_owner a = true) -> owners_sub (put a' us) us.
Proof.
  intros Hin Hid Hown z [x [Hx [Hz Ho]]].
  destruct (put_In _ _ _ Hx) as [E|H].
  - subst x. exists a. split; [exact Hin|]. split; [congruence|auto].
  - exists x. auto.
Qed.

Lemma put_sub_fresh a' us : is_owner a' = false -> owners_sub (put a' us) us.
Proof.
  intros Hf z [x [Hx [Hz Ho]]].
  destruct (put_In _ _ _ Hx) as [E|H].
  - subst x. congruence.
  - exists x. auto.
Qed.

Lemma del_sub z us : owners_sub (del z us) us.
Proof.
  intros y [x [Hx [Hz Ho]]]. unfold del in Hx. apply filter_In in Hx as [Hx _]. exists x. auto.
Qed.

(* ---- mutations ---- *)
Lemma aid_mutate a m : aid (mutate a m) = aid a.
Proof.
  destruct a as [u au]; destruct u; destruct m; try reflexivity.
  unfold mutate, set_pw; simpl.
  match goal with |- context[if ?b then _ else _] => destruct b end; reflexivity.
Qed.

Lemma caps_mutate a m :
  caps (mutate a m) = match m with MCaps cs => cs | _ => caps a end.
Proof.
  destruct a as [u au]; destruct u; destruct m; try reflexivity.
  unfold mutate, set_pw; simpl.
  match goal with |- context[if ?b then _ else _] => destruct b end; reflexivity.
Qed.

Definition mut_ok (a : acct) (m : mut) : Prop :=
  match m with MCaps cs => C03.Model.smem OWNER cs = true -> is_owner a = true | _ => True end.

Lemma is_owner_mutate a m : mut_ok a m -> is_owner (mutate a m) = true -> is_owner a = true.
Proof.
  unfold is_owner. rewrite caps_mutate. destruct m; simpl; auto.
Qed.

Definition eff_ok (s : st) (e : effect) : Prop :=
  match e with
  | ESet a m => In a (s_users s) /\ mut_ok a m
  | _ => True
  end.

(* ---- the shapes of the account list after an effect ---- *)
Opaque mutate.
Lemma eset_users s E a m :
  let us' := s_users (apply_effect s E (ESet a m)) in
  us' = put (mutate a m) (s_users s) \/ us' = s_users s \/
  exists h, m = MHostAdd h /\ us' = put (mutate (mutate a m) (MHostDel h)) (put (mutate a m) (s_users s)).
Proof.
  cbv zeta. cbn [apply_effect].
  destruct (rolls_back m && set_user_dup (store s (mutate a m)) E (mutate a m)); [|left; reflexivity].
  destruct m; try (right; left; reflexivity).
  destruct (C16.Model.iset_mem h _); [left; reflexivity|]. right. right. exists h. split; reflexivity.
Qed.

Lemma eset_next s E a m :
  s_next (apply_effect s E (ESet a m)) = Z.max (s_next s) (aid (mutate a m))
  \/ s_next (apply_effect s E (ESet a m)) = Z.max (s_next s) (aid a).
Proof.
  cbn [apply_effect].
  destruct (rolls_back m && set_user_dup (store s (mutate a m)) E (mutate a m)); [|left; reflexivity].
  destruct m; try (right; reflexivity).
  destruct (C16.Model.iset_mem h _); left; reflexivity.
Qed.

Lemma eset_rest s E a m :
  s_creator (apply_effect s E (ESet a m)) = s_creator s.
Proof.
  cbn [apply_effect].
  destruct (rolls_back m && set_user_dup (store s (mutate a m)) E (mutate a m)); [|reflexivity].
  destruct m; try reflexivity. destruct (C16.Model.iset_mem h _); reflexivity.
Qed.
Transparent mutate.

Definition reg_u1 (s : st) (name pw : str) : C16.Model.user :=
  set_pw (C16.Model.set_name name (C16.Model.User (Some (s_next s + 1)%Z) [] false false true [] [] [] [] [])) pw.

Lemma ereg_shape s E name pw addmask :
  let s' := apply_effect s E (ERegister name pw addmask) in
  s_next s' = (s_next s + 1)%Z /\ s_creator s' = s_creator s /\
  (s_users s' = del (s_next s + 1)%Z (s_users s)
   \/ s_users s' = put (Acct (reg_u1 s name pw) []) (s_users s)
   \/ (C16.Model.is_user_hostmask (e_prefix E) = true /\
       s_users s' = put (Acct (C16.Model.set_hosts (C16.Model.iset_add [] (e_prefix E)) (reg_u1 s name pw)) []) (s_users s))).
Proof.
  cbv zeta. cbn [apply_effect]. fold (reg_u1 s name pw).
  destruct addmask; cbn [andb].
  - destruct (C16.Model.is_user_hostmask (e_prefix E)) eqn:Hm; cbn [negb].
    + destruct (Nat.ltb _ 3).
      * split; [reflexivity|split; [reflexivity|left; reflexivity]].
      * match goal with |- context[if ?b then _ else _] => destruct b end;
          (split; [reflexivity|split; [reflexivity|]]); [left; reflexivity|right; right; split; reflexivity].
    + split; [reflexivity|split; [reflexivity|right; left; reflexivity]].
  - match goal with |- context[if ?b then _ else _] => destruct b end;
      (split; [reflexivity|split; [reflexivity|]]); [left; reflexivity|right; left; reflexivity].
Qed.

Opaque mutate.
Lemma apply_effect_sub s E e :
  eff_ok s e -> owners_sub (s_users (apply_effect s E e)) (s_users s).
Proof.
  destruct e as [|a m|z|name pw addmask|ch c|h|h]; intro H; try apply owners_sub_refl.
  - destruct H as [Hin Hm].
    assert (H1 : owners_sub (put (mutate a m) (s_users s)) (s_users s)).
    { apply put_sub with (a := a); [exact Hin|apply aid_mutate|apply is_owner_mutate; exact Hm]. }
    destruct (eset_users s E a m) as [K|[K|(h & Em & K)]]; rewrite K.
    + exact H1.
    + apply owners_sub_refl.
    + subst m. eapply owners_sub_trans; [|exact H1].
      apply put_sub with (a := mutate a (MHostAdd h)).
      * apply put_In_self.
      * apply aid_mutate.
      * apply is_owner_mutate. exact Logic.I.
  - simpl. apply del_sub.
  - destruct (ereg_shape s E name pw addmask) as (_ & _ & [K|[K|[_ K]]]); rewrite K.
    + apply del_sub.
    + apply put_sub_fresh. reflexivity.
    + apply put_sub_fresh. reflexivity.
Qed.
Transparent mutate.

(* ---- where the accounts in an effect come from ---- *)
Lemma find_id_In z us a : find_id z us = Some a -> In a us.
Proof. unfold find_id. intro H. apply find_some in H. tauto. Qed.

Lemma lookup_In s E x a : lookup s E x = Some a -> In a (s_users s).
Proof.
  unfold lookup. destruct (lookup_id s E x); [|discriminate]. apply find_id_In.
Qed.

Lemma caller_In s E a : caller s E = Some a -> In a (s_users s).
Proof. apply lookup_In. Qed.

Lemma conv_other_In s E x a : conv_other s E x = Some a -> In a (s_users s).
Proof.
  unfold conv_other.
  destruct (C16.Model.is_user_hostmask x); [discriminate|].
  destruct (lookup s E x) eqn:L.
  - intro H; inversion H; subst. eapply lookup_In; eauto.
  - destruct (C03.Model.hd_is DOLLAR x); [discriminate|].
    destruct (dict_get _ _); [|discriminate]. apply lookup_In.
Qed.

Lemma parse_hm_In s E args u h p : parse_hm s E args = Some (u, h, p) -> In u (s_users s).
Proof.
  unfold parse_hm.
  set (first := match args with [] => _ | _ :: _ => _ end).
  assert (Hf : forall v r, first = (Some v, r) -> In v (s_users s)).
  { subst first. intros v r. destruct args as [|x xs].
    - intro H; inversion H. eapply caller_In; eauto.
    - destruct (conv_other s E x) eqn:C; intro H; inversion H.
      + subst. eapply conv_other_In; eauto.
      + eapply caller_In; eauto. }
  destruct first as [[v|] rest]; [|discriminate].
  specialize (Hf v rest eq_refl).
  destruct (match rest with [] => _ | _ :: _ => _ end) as [hm rest1].
  destruct rest1 as [|y [|y2 r2]]; try discriminate.
  - intro H; inversion H; subst; exact Hf.
  - destruct (nonempty y); [|discriminate]. intro H; inversion H; subst; exact Hf.
Qed.

(* ---- capability sets ---- *)
Lemma smem_sremove x y S : C03.Model.smem x (C03.Model.sremove y S) = true -> C03.Model.smem x S = true.
Proof.
  unfold C03.Model.smem, C03.Model.sremove. rewrite !existsb_exists.
  intros [e [Hin He]]. apply filter_In in Hin as [Hin _]. exists e; auto.
Qed.

Lemma smem_app x S c : C03.Model.smem x (S ++ [c]) = C03.Model.smem x S || seq_eqb x c.
Proof. unfold C03.Model.smem. rewrite existsb_app. simpl. rewrite orb_false_r. reflexivity. Qed.

Lemma cs_add_owner S c cs :
  C03.Model.cs_add S c = Ok cs -> C03.Model.smem OWNER cs = true ->
  C03.Model.smem OWNER S = true \/ C03.Model.fold c = OWNER.
Proof.
  unfold C03.Model.cs_add. destruct (C03.Model.invertCapability (C03.Model.fold c)) as [inv|e]; simpl; [|discriminate].
  intro H. inversion H; subst; clear H.
  destruct (C03.Model.smem (C03.Model.fold c) (C03.Model.sremove inv S)).
  - intro H. left. eapply smem_sremove; eauto.
  - rewrite smem_app. intro H. apply orb_true_iff in H as [H|H].
    + left. eapply smem_sremove; eauto.
    + right. apply seq_eqb_eq in H. auto.
Qed.

Lemma ucs_add_owner S c cs :
  C03.Model.ucs_add S c = Ok cs -> C03.Model.smem OWNER cs = true ->
  C03.Model.smem OWNER S = true \/ C03.Model.fold c = OWNER.
Proof.
  unfold C03.Model.ucs_add. destruct (seq_eqb _ _); [discriminate|].
  intros H1 H2. destruct (cs_add_owner _ _ _ H1 H2) as [H|H]; [left; exact H|].
  right. rewrite C03.Fold.fold_idem in H. exact H.
Qed.

Lemma fold_OWNER : C03.Model.fold OWNER = OWNER.
Proof. vm_compute. reflexivity. Qed.

Lemma chancap_not_owner ch w : C03.Model.fold (ch ++ [COMMA] ++ w) <> OWNER.
Proof.
  intro H. assert (M : mem COMMA (C03.Model.fold (ch ++ [COMMA] ++ w)) = true).
  { rewrite C03.Fold.fold_mem by reflexivity. rewrite mem_app. simpl.
    apply orb_true_r. }
  rewrite H in M. vm_compute in M. discriminate.
Qed.

(* ---- every effect a command produces is harmless for the owner set ---- *)
Ltac crack :=
  repeat match goal with
         | |- eff_ok _ (match ?x with _ => _ end) => destruct x eqn:?
         | |- eff_ok _ (if ?x then _ else _) => destruct x eqn:?
         end; subst.

Ltac fin :=
  simpl; try exact Logic.I;
  try (split; [eauto using conv_other_In, caller_In, parse_hm_In|simpl; try exact Logic.I]).

Lemma d_register_ok s E args : eff_ok s (d_register s E args).
Proof. unfold d_register. crack; fin. Qed.
Lemma d_unregister_ok s E args : eff_ok s (d_unregister s E args).
Proof. unfold d_unregister. cbv beta zeta. crack; fin. Qed.
Lemma d_changename_ok s E args : eff_ok s (d_changename s E args).
Proof. unfold d_changename. cbv beta zeta. crack; fin. Qed.
Lemma d_identify_ok s E args : eff_ok s (d_identify s E args).
Proof. unfold d_identify. crack; fin. Qed.
Lemma d_unidentify_ok s E args : eff_ok s (d_unidentify s E args).
Proof. unfold d_unidentify. crack; fin. Qed.
Lemma d_hostadd_ok s E args : eff_ok s (d_hostadd s E args).
Proof. unfold d_hostadd. cbv beta zeta. crack; fin. Qed.
Lemma d_hostremove_ok s E args : eff_ok s (d_hostremove s E args).
Proof. unfold d_hostremove. cbv beta zeta. crack; fin. Qed.
Lemma d_setsecure_ok s E args : eff_ok s (d_setsecure s E args).
Proof. unfold d_setsecure. cbv beta zeta. crack; fin. Qed.
Lemma d_aignadd_ok s E args : eff_ok s (d_aignadd s E args).
Proof. unfold d_aignadd. cbv beta zeta. crack; fin. Qed.
Lemma d_aignremove_ok s E args : eff_ok s (d_aignremove s E args).
Proof. unfold d_aignremove. crack; fin. Qed.

Lemma d_setpassword_ok s E args : eff_ok s (d_setpassword s E args).
Proof.
  unfold d_setpassword.
  destruct (match args with [] => _ | _ :: _ => _ end) as [uo rest] eqn:P.
  assert (Hu : forall u, uo = Some u -> In u (s_users s)).
  { destruct args as [|x r]; [inversion P; subst; discriminate|].
    destruct (conv_other s E x) eqn:C; inversion P; subst; [|discriminate].
    intros u H; inversion H; subst. eapply conv_other_In; eauto. }
  assert (Hw : forall u, match uo with Some u => Some u | None => caller s E end = Some u -> In u (s_users s)).
  { destruct uo; intros u H; [apply Hu; exact H|eapply caller_In; eauto]. }
  crack; simpl; try exact Logic.I; (split; [first [apply Hw; reflexivity|apply Hw; assumption]|exact Logic.I]).
Qed.

(* Admin.capability.add refuses every capability whose folded form is "owner" *)
Lemma d_acapadd_ok s E args : eff_ok s (d_acapadd s E args).
Proof.
  unfold d_acapadd. cbv beta zeta. crack; fin.
  all: intro Ho;
    match goal with
    | H : C03.Model.ucs_add _ _ = Ok _ |- _ => destruct (ucs_add_owner _ _ _ H Ho) as [Hs|Hs]; [exact Hs|]
    end;
    match goal with
    | H : seq_eqb _ _ = false |- _ => apply seq_eqb_neq in H; exfalso; apply H
    end;
    rewrite fold_OWNER; exact Hs.
Qed.

Lemma d_acapremove_ok s E args : eff_ok s (d_acapremove s E args).
Proof.
  unfold d_acapremove. cbv beta zeta. crack; fin.
  all: intro Ho; eapply smem_sremove; exact Ho.
Qed.

Lemma d_ccap_ok k s E args : eff_ok s (d_ccap k s E args).
Proof.
  unfold d_ccap. destruct (conv_op s E args) as [[ch r]|]; [|exact Logic.I].
  destruct k; try exact Logic.I; crack; fin.
  all: intro Ho;
    try (eapply smem_sremove; exact Ho);
    match goal with
    | H : C03.Model.ucs_add _ _ = Ok _ |- _ => destruct (ucs_add_owner _ _ _ H Ho) as [Hs|Hs]; [exact Hs|]
    end;
    exfalso; eapply chancap_not_owner; exact Hs.
Qed.

Lemma decide_ok k s E args : eff_ok s (decide k s E args).
Proof.
  unfold decide. destruct (needs_private k && negb (in_private E)); [exact Logic.I|].
  destruct k; simpl;
    auto using d_register_ok, d_unregister_ok, d_changename_ok, d_identify_ok, d_unidentify_ok, d_hostadd_ok,
      d_hostremove_ok, d_setpassword_ok, d_setsecure_ok, d_acapadd_ok, d_acapremove_ok, d_aignadd_ok,
      d_aignremove_ok, d_ccap_ok.
Qed.

Lemma effect_of_ok s E text : eff_ok s (effect_of s E text).
Proof.
  unfold effect_of.
  destruct (ignored s E); [exact Logic.I|].
  destruct (tokens text); [|exact Logic.I].
  destruct (find_cmd commands l) as [[[ws k] args]|]; [|exact Logic.I].
  destruct (gate_blocked s E ws); [exact Logic.I|]. apply decide_ok.
Qed.

Definition no_reload (o : op) : Prop := match o with OReload => False | _ => True end.

Lemma step_sub s o : no_reload o -> owners_sub (s_users (step s o)) (s_users s).
Proof.
  destruct o as [E text| |]; simpl; intro H.
  - apply apply_effect_sub. apply effect_of_ok.
  - apply owners_sub_refl.
  - contradiction.
Qed.

Lemma run_ops_sub ops : forall s, Forall no_reload ops -> owners_sub (s_users (run_ops s ops)) (s_users s).
Proof.
  unfold run_ops. induction ops as [|o r IH]; intros s H; simpl.
  - apply owners_sub_refl.
  - inversion H; subst. eapply owners_sub_trans; [apply IH; assumption|]. apply step_sub. assumption.
Qed.
