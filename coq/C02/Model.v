(* C02/Model.v — executable model of every command a NON-owner can issue that touches accounts or
   capabilities, on top of the finished models
     C03 (capability algebra, UserCapabilitySet.add = ucs_add, ircdb.checkCapability),
     C04 (hostmask globbing, IrcUser.checkHostmask/addAuth, the overlap loops of setUser),
     C13 (callbacks.tokenize: how "x\n  capability owner" typed on IRC becomes a string with a real LF),
     C16 (users.conf writer/reader: write_users / read_users_from).
   Mirrors  plugins/User/plugin.py (register, unregister, changename, identify, unidentify,
   hostmask add/remove, set password, set secure), plugins/Admin/plugin.py (capability add/remove,
   ignore add/remove), plugins/Channel/plugin.py (capability add/remove/set/unset/setdefault), the
   converters of src/commands.py they are wrapped with, the dispatch gates of src/callbacks.py
   (checkCommandCapability over "Y", "P", "P.X", "P.X.Y") and plugins/Owner/plugin.py (ircdb.checkIgnored),
   and UsersDictionary.newUser/setUser/delUser/flush/reload of src/ircdb.py.

   Inputs (oracles, never axioms):
     * e_lk    — the answers of users.getUserId(x) during the command (C04 is the property about those
                 answers; here they are an input, as in C03).  None = KeyError.
     * e_nicks — irc.state.nicksToHostmasks (folded nick -> hostmask).
   A password is stored as an injective encoding standing for utils.saltHash (see enc_pw).
   No proofs in this file. *)
From Coq Require Import List NArith ZArith Bool Arith.
Import ListNotations.
Require Import Base.Wire Base.PyStr.
Require C03.Model C04.Model C13.Model C16.Model.
Require gen.T02.
Open Scope N_scope.



Definition COMMA : N := 44.  Definition DASH : N := 45.  Definition DOT : N := 46.
Definition PIPE : N := 124.  Definition DOLLAR : N := 36.
Definition OWNER : str := C03.Model.OWNER.
Definition TRUSTED : str := [116; 114; 117; 115; 116; 101; 100].
Definition OP : str := C03.Model.OP.
Definition ALL : str := [97; 108; 108].

(* ------------------------------------------------------------------ *)
(* accounts and state *)

Record acct := Acct { a_u : C16.Model.user; a_auth : list str }.   (* IrcUser; auth = login hostmasks (times dropped) *)

Record st := St {
  s_users : list acct;                 (* users.users, dict insertion order *)
  s_next : Z;                          (* users.nextId *)
  s_creator : option C16.Model.user;         (* IrcUserCreator.u (class attribute, survives a load) *)
  s_chans : list (str * C03.Model.chan);      (* channels.channels that differ from IrcChannel(), key folded+lowered *)
  s_ignores : list str }.              (* ignores.hostmasks (permanent entries) *)

Record env := Env {
  e_prefix : str;                      (* msg.prefix *)
  e_lk : list (str * option Z);        (* users.getUserId(x) answers recorded during the command *)
  e_nicks : list (str * str);          (* irc.state.nicksToHostmasks *)
  e_chan : option str }.               (* msg.channel: None = private message, Some ch = said in channel ch *)

Definition aid (a : acct) : Z := C16.Model.id_of (a_u a).
Definition caps (a : acct) : list str := C16.Model.u_caps (a_u a).
Definition is_owner (a : acct) : bool := C03.Model.smem OWNER (caps a).

Definition with_users (s : st) (us : list acct) : st :=
  St us (s_next s) (s_creator s) (s_chans s) (s_ignores s).

Definition find_id (z : Z) (us : list acct) : option acct := find (fun a => Z.eqb (aid a) z) us.

(* self.users[id] = user *)
Fixpoint put (a : acct) (us : list acct) : list acct :=
  match us with
  | [] => [a]
  | b :: r => if Z.eqb (aid b) (aid a) then a :: r else b :: put a r
  end.
Definition del (z : Z) (us : list acct) : list acct := filter (fun a => negb (Z.eqb (aid a) z)) us.

(* getUserId(name) for a string that is not hostmask-shaped (name cache assumed coherent) *)
Definition by_name (s : str) (us : list acct) : option acct :=
  find (fun a => seq_eqb (C03.Model.lower s) (C03.Model.lower (C16.Model.u_name (a_u a)))) us.

Definition lk_id (E : env) (h : str) : option Z :=
  match dict_get h (e_lk E) with Some r => r | None => None end.

(* users.getUserId(x): the recorded answer when the real command asked for x (hostmask-shaped strings
   always; names too, because _nameCache can be stale: after changename the old name keeps resolving),
   otherwise the name scan *)
Definition lookup_id (s : st) (E : env) (x : str) : option Z :=
  match dict_get x (e_lk E) with
  | Some r => r
  | None => if C16.Model.is_user_hostmask x then None else option_map aid (by_name x (s_users s))
  end.
(* users.getUser(x) *)
Definition lookup (s : st) (E : env) (x : str) : option acct :=
  match lookup_id s E x with Some z => find_id z (s_users s) | None => None end.

Definition caller (s : st) (E : env) : option acct := lookup s E (e_prefix E).

(* ------------------------------------------------------------------ *)
(* views into the C03 / C04 models *)

Definition to3 (a : acct) : C03.Model.user :=
  C03.Model.User (caps a) (C16.Model.u_ignore (a_u a)) (C16.Model.u_secure (a_u a)).
Definition to4 (a : acct) : C04.Model.user :=
  C04.Model.User (C16.Model.u_name (a_u a)) (C16.Model.u_hosts (a_u a)) (map (fun m => (0%Z, m)) (a_auth a)) (C16.Model.u_secure (a_u a)).

(* user.checkHostmask(h, useAuth) is truthy (no login timeout) *)
Definition check_hostmask (a : acct) (h : str) (useAuth : bool) : bool :=
  C04.Model.truthy (snd (C04.Model.checkHostmask false 0%Z 0%Z (to4 a) h useAuth)).

Definition cdb (s : st) (c : option acct) (prefix : str) : C03.Model.db :=
  C03.Model.Db (option_map to3 c)
        (match c with Some a => check_hostmask a prefix false | None => false end)
        (s_chans s) gen.T02.DEFAULT_CAPS gen.T02.REGISTERED_CAPS gen.T02.DEFAULT_FLAG.

(* ircdb.checkCapability(msg.prefix, cap) *)
Definition check (s : st) (E : env) (cap : str) : res bool :=
  C03.Model.checkCapability (cdb s (caller s E) (e_prefix E)) cap (C03.Model.Flags false false false).
Definition holds (s : st) (E : env) (cap : str) : bool :=
  match check s E cap with Ok true => true | _ => false end.

(* u._checkCapability('owner') *)
Definition acct_owner (a : acct) : bool :=
  match C03.Model.user_check (to3 a) OWNER false with Ok true => true | _ => false end.

(* ------------------------------------------------------------------ *)
(* passwords: utils.saltHash modelled as an injective encoding "h|<code points>" *)
Definition enc_body (p : str) : str := flat_map (fun c => C16.Model.dec_N c ++ [DOT]) p.
Definition enc_pw (p : str) : str := [104; PIPE] ++ enc_body p.

(* IrcUser.setPassword *)
Definition set_pw (u : C16.Model.user) (p : str) : C16.Model.user :=
  if C16.Model.u_hashed u then C16.Model.set_password (enc_pw p) u else C16.Model.set_password p u.

(* IrcUser.checkPassword; None = the Python None; the commands pass '' for "no password given" *)
Definition check_pw (a : acct) (p : option str) : res bool :=
  match p with
  | None => Ok false
  | Some p =>
      let u := a_u a in
      (* if not password or not self.password: return False     (repair of C02.F44) *)
      if negb (nonempty p) || negb (nonempty (C16.Model.u_password u)) then Ok false
      else if C16.Model.u_hashed u then
        match split_char PIPE (C16.Model.u_password u) with
        | [salt; _] => Ok (seq_eqb (C16.Model.u_password u) (salt ++ [PIPE] ++ enc_body p))
        | _ => Raise ValueError                         (* (salt, _) = self.password.split('|') *)
        end
      else Ok (seq_eqb (C16.Model.u_password u) p)
  end.
Definition pw_ok (a : acct) (p : option str) : option bool :=
  match check_pw a p with Ok b => Some b | Raise _ => None end.

(* ------------------------------------------------------------------ *)
(* effects: what a command does to the databases once its converters and in-body checks passed *)

Inductive mut :=
| MName (n : str) | MPass (p : str) | MHostAdd (h : str) | MHostDel (h : str) | MHostClear
| MSecure (b : bool) | MAuthAdd (h : str) | MAuthClear | MCaps (cs : list str).

Inductive effect :=
| ENone
| ESet (a : acct) (m : mut)                     (* mutate the stored object, then users.setUser(user) *)
| EDel (z : Z)                                  (* users.delUser(id) *)
| ERegister (name pw : str) (addmask : bool)    (* newUser(); name; setPassword; addHostmask; setUser *)
| EChan (ch : str) (c : C03.Model.chan)                (* channels.setChannel *)
| EIgnAdd (h : str) | EIgnDel (h : str).

Definition mutate (a : acct) (m : mut) : acct :=
  let u := a_u a in
  match m with
  | MName n => Acct (C16.Model.set_name n u) (a_auth a)
  | MPass p => Acct (set_pw u p) (a_auth a)
  | MHostAdd h => Acct (C16.Model.set_hosts (C16.Model.iset_add (C16.Model.u_hosts u) h) u) (a_auth a)
  | MHostDel h => Acct (C16.Model.set_hosts (C16.Model.iset_remove (C16.Model.u_hosts u) h) u) (a_auth a)
  | MHostClear => Acct (C16.Model.set_hosts [] u) (a_auth a)
  | MSecure b => Acct (C16.Model.set_secure b u) (a_auth a)
  | MAuthAdd h => Acct u (map snd (C04.Model.dedupe_auth (map (fun m => (0%Z, m)) (a_auth a) ++ [(0%Z, h)])))
  | MAuthClear => Acct u []
  | MCaps cs => Acct (C16.Model.set_caps cs u) (a_auth a)
  end.

(* does users.setUser(a) raise DuplicateHostmask in state s (a already stored)? *)
Definition set_user_dup (s : st) (E : env) (a : acct) : bool :=
  (match lookup_id s E (C16.Model.u_name (a_u a)) with Some z => negb (Z.eqb z (aid a)) | None => false end)
  || snd (C04.Model.overlap_all 0%Z 0%Z (Z.to_N (aid a)) (C16.Model.u_hosts (a_u a))
            (map (fun b => (Z.to_N (aid b), to4 b)) (s_users s))).

(* ircdb.unWildcardHostmask *)
Definition unwild (h : str) : str := filter (fun c => negb (mem c [33; 64; 42; 63])) h.

Definition store (s : st) (a : acct) : st :=
  St (put a (s_users s)) (Z.max (s_next s) (aid a)) (s_creator s) (s_chans s) (s_ignores s).

Definition chan_key (ch : str) : str := C03.Model.fold (C03.Model.lower ch).

(* users.setUser(user) raised before storing: only nextId moved *)
Definition touch (s : st) (a : acct) : st :=
  St (s_users s) (Z.max (s_next s) (aid a)) (s_creator s) (s_chans s) (s_ignores s).

(* the commands that put the live account back when setUser refuses (DuplicateHostmask): changename restores the
   name, identify / unidentify the logins, hostmask remove the hostmask set, set secure the flag; hostmask add removes
   the mask it added.  set password and the capability commands do not (the mutated object stays). *)
Definition rolls_back (m : mut) : bool :=
  match m with
  | MName _ | MHostAdd _ | MHostDel _ | MHostClear | MSecure _ | MAuthAdd _ | MAuthClear => true
  | MPass _ | MCaps _ => false
  end.

Definition apply_effect (s : st) (E : env) (e : effect) : st :=
  match e with
  | ENone => s
  | ESet a m =>
      let a' := mutate a m in
      let s' := store s a' in
      if rolls_back m && set_user_dup s' E a' then
        match m with
        | MHostAdd h =>          (* alreadyThere = hostmask in user.hostmasks; if not alreadyThere: user.removeHostmask(hostmask) *)
            if C16.Model.iset_mem h (C16.Model.u_hosts (a_u a)) then s'
            else with_users s' (put (mutate a' (MHostDel h)) (s_users s'))
        | _ => touch s a
        end
      else s'
  | EDel z => with_users s (del z (s_users s))
  | ERegister name pw addmask =>
      (* user = newUser(); try: name; setPassword; addHostmask(msg.prefix); setUser(user)
         except ValueError: delUser(user.id); raise      (DuplicateHostmask is a ValueError) *)
      let id := (s_next s + 1)%Z in
      let u0 := C16.Model.User (Some id) [] false false true [] [] [] [] [] in
      let u1 := set_pw (C16.Model.set_name name u0) pw in
      let deleted := St (del id (s_users s)) id (s_creator s) (s_chans s) (s_ignores s) in
      if addmask && negb (C16.Model.is_user_hostmask (e_prefix E)) then
        (* assert in addHostmask: AssertionError is not caught, the account newUser() stored stays, without hostmask *)
        St (put (Acct u1 []) (s_users s)) id (s_creator s) (s_chans s) (s_ignores s)
      else if addmask && Nat.ltb (List.length (unwild (e_prefix E))) 3 then deleted     (* ValueError in addHostmask *)
      else
        let u2 := if addmask then C16.Model.set_hosts (C16.Model.iset_add [] (e_prefix E)) u1 else u1 in
        let s2 := St (put (Acct u2 []) (s_users s)) id (s_creator s) (s_chans s) (s_ignores s) in
        if set_user_dup s2 E (Acct u2 []) then deleted else s2
  | EChan ch c => St (s_users s) (s_next s) (s_creator s) (dict_set (chan_key ch) c (s_chans s)) (s_ignores s)
  | EIgnAdd h =>
      St (s_users s) (s_next s) (s_creator s) (s_chans s)
         (if existsb (seq_eqb h) (s_ignores s) then s_ignores s else s_ignores s ++ [h])
  | EIgnDel h =>
      St (s_users s) (s_next s) (s_creator s) (s_chans s)
         (filter (fun x => negb (seq_eqb h x)) (s_ignores s))
  end.

(* ------------------------------------------------------------------ *)
(* converters (src/commands.py) *)

(* getOtherUser: appends the account or raises callbacks.Error (errorNoUser / errorInvalid default to
   Raise=True): None = Error.  (An empty argument list is IndexError, handled by the callers.) *)
Definition conv_other (s : st) (E : env) (arg : str) : option acct :=
  if C16.Model.is_user_hostmask arg then None
  else match lookup s E arg with
       | Some a => Some a
       | None =>
           if C03.Model.hd_is DOLLAR arg then None
           else match dict_get (C03.Model.fold arg) (e_nicks E) with
                | Some h => lookup s E h
                | None => None
                end
       end.

(* getHostmask *)
Definition conv_hostmask (E : env) (arg : str) : option str :=
  if C16.Model.is_user_hostmask arg || C03.Model.hd_is DOLLAR arg then Some arg
  else dict_get (C03.Model.fold arg) (e_nicks E).

(* utils.str.toBool *)
Definition to_bool (x : str) : option bool :=
  let y := C03.Model.lower (C16.Model.strip_ws x) in
  if existsb (seq_eqb y) gen.T02.BOOL_TRUE then Some true
  else if existsb (seq_eqb y) gen.T02.BOOL_FALSE then Some false
  else None.

(* getSomethingNoSpaces *)
Definition is_capname (c : str) : bool := nonempty c && C03.Model.one_word c.

(* getExpiry on the modelled domain: a plain decimal literal; only "never expires" results are kept *)
Definition expiry_ok (e : str) : bool :=
  nonempty e && forallb C16.Model.is_digit e && (negb (C03.Model.hd_is 48 e) || Nat.eqb (List.length e) 1).

(* first('otherUser', 'user'), optional('something'), additional('something', '') *)
Definition parse_hm (s : st) (E : env) (args : list str) : option (acct * option str * str) :=
  let first :=
    match args with
    | [] => (caller s E, [])
    | x :: r => match conv_other s E x with
                | Some a => (Some a, r)
                | None => (caller s E, args)        (* first(): the Error is swallowed, 'user' is tried *)
                end
    end in
  match first with
  | (None, _) => None
  | (Some u, rest) =>
      let '(hm, rest1) := match rest with
                          | [] => (None, [])
                          | x :: r => if nonempty x then (Some x, r) else (None, rest)
                          end in
      match rest1 with
      | [] => Some (u, hm, [])
      | [x] => if nonempty x then Some (u, hm, x) else None
      | _ => None
      end
  end.


(* ------------------------------------------------------------------ *)
(* the commands *)

Inductive cmd :=
| URegister | UUnregister | UChangename | UIdentify | UUnidentify | UHostAdd | UHostRemove
| USetPassword | USetSecure
| ACapAdd | ACapRemove | AIgnAdd | AIgnRemove
| CCapAdd | CCapRemove | CCapSet | CCapUnset | CCapSetdefault.

(* User._checkName (the repair of C02.F1): not a hostmask; name == name.strip(); none of the characters
   of gen.T02.NAME_FORBIDDEN (TAB CR LF).  'something' already made it non-empty. *)
Definition name_valid (n : str) : bool :=
  negb (C16.Model.is_user_hostmask n)
  && seq_eqb n (C16.Model.strip_ws n)
  && negb (existsb (fun c => mem c n) gen.T02.NAME_FORBIDDEN).

Definition d_register s E args :=
  match args with
  | [name; pw] =>
      if nonempty name && nonempty pw then
        match lookup_id s E name with
        | Some _ => ENone
        | None =>
            if negb (name_valid name) then ENone
            else match caller s E with
                 | Some u => if acct_owner u then ERegister name pw false else ENone
                 | None => ERegister name pw true
                 end
        end
      else ENone
  | _ => ENone
  end.

Definition d_unregister s E args :=
  let go n pw :=
    match conv_other s E n with
    | Some u =>
        let isOwner := match caller s E with Some c => acct_owner c | None => false end in
        if isOwner then EDel (aid u)
        else match pw_ok u pw with Some true => EDel (aid u) | _ => ENone end
    | _ => ENone
    end in
  match args with
  | [n] => go n None
  | [n; pw] => go n (Some pw)
  | _ => ENone
  end.

Definition d_changename s E args :=
  let go n new pw :=
    if nonempty new then
      match conv_other s E n with
      | Some u =>
          match lookup_id s E new with
          | Some _ => ENone
          | None =>
              if negb (name_valid new) then ENone
              else if check_hostmask u (e_prefix E) true then ESet u (MName new)
              else match pw_ok u (Some pw) with Some true => ESet u (MName new) | _ => ENone end
          end
      | _ => ENone
      end
    else ENone in
  match args with
  | [n; new] => go n new []
  | [n; new; pw] => if nonempty pw then go n new pw else ENone
  | _ => ENone
  end.

Definition d_identify s E args :=
  match args with
  | [n; pw] =>
      if nonempty pw then
        match conv_other s E n with
        | Some u =>
            match pw_ok u (Some pw) with
            | Some true =>
                if check_hostmask u (e_prefix E) false || negb (C16.Model.u_secure (a_u u))
                then ESet u (MAuthAdd (e_prefix E)) else ENone
            | _ => ENone
            end
        | _ => ENone
        end
      else ENone
  | _ => ENone
  end.

Definition d_unidentify s E (args : list str) :=
  match args with
  | [] => match caller s E with Some u => ESet u MAuthClear | None => ENone end
  | _ => ENone
  end.

Definition d_hostadd s E args :=
  match parse_hm s E args with
  | None => ENone
  | Some (u, hmo, pw) =>
      let caller_is_owner := holds s E OWNER in
      let hm := match hmo with Some h => h | None => e_prefix E end in
      if negb (C16.Model.is_user_hostmask hm) then ENone
      else if match lk_id E hm with Some z => negb (Z.eqb z (aid u)) | None => false end then ENone
      else match pw_ok u (Some pw) with
           | None => ENone
           | Some a =>
               if a || check_hostmask u (e_prefix E) true || caller_is_owner then
                 if Nat.ltb (List.length (unwild hm)) 3 then ENone else ESet u (MHostAdd hm)
               else ENone
           end
  end.

Definition d_hostremove s E args :=
  match parse_hm s E args with
  | None => ENone
  | Some (u, hmo, pw) =>
      let hm := match hmo with Some h => h | None => e_prefix E end in
      match pw_ok u (Some pw) with
      | None => ENone
      | Some a =>
          if a || check_hostmask u (e_prefix E) true || holds s E OWNER then
            if seq_eqb hm ALL then ESet u MHostClear
            else if C16.Model.iset_mem hm (C16.Model.u_hosts (a_u u)) then ESet u (MHostDel hm) else ENone
          else ENone
      end
  end.

Definition d_setpassword s E args :=
  (* optional('otherUser'): an Error (or no argument) gives the default None *)
  let '(uo, rest) := match args with
                     | [] => (None, [])
                     | x :: r => match conv_other s E x with Some a => (Some a, r) | None => (None, args) end
                     end in
  match rest with
  | [old; new] =>
      if nonempty old && nonempty new then
        match (match uo with Some u => Some u | None => caller s E end) with
        | Some u =>
            match pw_ok u (Some old) with
            | None => ENone
            | Some true => ESet u (MPass new)
            | Some false =>
                match caller s E with
                | Some c => if acct_owner c then ESet u (MPass new) else ENone
                | None => ENone
                end
            end
        | None => ENone
        end
      else ENone
  | _ => ENone
  end.

Definition d_setsecure s E args :=
  let go pw (v : option bool) :=
    if nonempty pw then
      match caller s E with
      | Some u =>
          let value := match v with Some b => b | None => negb (C16.Model.u_secure (a_u u)) end in
          match pw_ok u (Some pw) with
          | Some true => if check_hostmask u (e_prefix E) false then ESet u (MSecure value) else ENone
          | _ => ENone
          end
      | None => ENone
      end
    else ENone in
  match args with
  | [pw] => go pw None
  | [pw; b] => match to_bool b with Some v => go pw (Some v) | None => ENone end
  | _ => ENone
  end.

(* Admin.capability.add:  ['otherUser', 'lowered'] *)
Definition d_acapadd s E args :=
  match args with
  | [n; c] =>
      match conv_other s E n with
      | Some u =>
          let cap := C03.Model.fold c in
          if negb (C16.Model.token cap) then ENone     (* capability.split() != [capability]: empty or some whitespace *)
          else if seq_eqb (C03.Model.fold cap) (C03.Model.fold OWNER) then ENone     (* ircutils.strEqual(capability, 'owner') *)
          else
            let entitled := if C03.Model.isAntiCapability cap then true else holds s E cap in
            if entitled then
              match C03.Model.ucs_add (caps u) cap with
              | Ok cs => ESet u (MCaps cs)
              | Raise _ => ENone
              end
            else ENone
      | _ => ENone
      end
  | _ => ENone
  end.

Definition d_acapremove s E args :=
  match args with
  | [n; c] =>
      match conv_other s E n with
      | Some u =>
          let cap := C03.Model.fold c in
          match check s E cap with
          | Raise _ => ENone
          | Ok b =>
              if b || C03.Model.isAntiCapability cap then
                if C03.Model.smem (C03.Model.fold cap) (caps u) then ESet u (MCaps (C03.Model.sremove (C03.Model.fold cap) (caps u))) else ENone
              else ENone
          end
      | _ => ENone
      end
  | _ => ENone
  end.

Definition d_aignadd (s : st) E args :=
  let go h := match conv_hostmask E h with
              | Some hm => if C16.Model.is_user_hostmask hm then EIgnAdd hm else ENone
              | None => ENone
              end in
  match args with
  | [h] => go h
  | [h; e] => if expiry_ok e then go h else ENone
  | _ => ENone
  end.

Definition d_aignremove (s : st) E args :=
  match args with
  | [h] => match conv_hostmask E h with
           | Some hm => if existsb (seq_eqb hm) (s_ignores s) then EIgnDel hm else ENone
           | None => ENone
           end
  | _ => ENone
  end.

(* the 'op' converter: getChannel + checkChannelCapability(..., 'op') *)
Definition conv_op (s : st) (E : env) (args : list str) : option (str * list str) :=
  (* getChannel: the first argument if it is a channel name, else the channel the message was said in *)
  let pick := match args with
              | ch :: r => if C03.Model.isChannel ch then Some (ch, r)
                           else option_map (fun c => (c, args)) (e_chan E)
              | [] => option_map (fun c => (c, args)) (e_chan E)
              end in
  match pick with
  | Some (ch, r) =>
      (* checkChannelCapability: makeChannelCapability asserts isChannel; checkCapability(msg.prefix, "<ch>,op") *)
      if C03.Model.isChannel ch && holds s E (ch ++ [COMMA] ++ OP) then Some (ch, r) else None
  | None => None                                  (* callbacks.ArgumentError *)
  end.

Definition chan_of (s : st) (ch : str) : C03.Model.chan :=
  match dict_get (chan_key ch) (s_chans s) with Some c => c | None => C03.Model.default_chan end.

(* for c in caps: chan.addCapability(c)  — the object is mutated in place, a raise keeps the earlier ones *)
Fixpoint chan_adds (S : C03.Model.cset) (l : list str) : C03.Model.cset :=
  match l with
  | [] => S
  | c :: r => match C03.Model.cs_add S c with Ok S' => chan_adds S' r | Raise _ => S end
  end.
Definition chan_removes (S : C03.Model.cset) (l : list str) : C03.Model.cset :=
  fold_left (fun acc c => C03.Model.sremove (C03.Model.fold c) acc) l S.

Definition d_ccap (k : cmd) s E args :=
  match conv_op s E args with
  | None => ENone
  | Some (ch, r) =>
      match k with
      | CCapAdd | CCapRemove =>
          match r with
          | [n; c] =>
              match conv_other s E n with
              | Some u =>
                  if is_capname c then
                    match C16.Model.split_ws c with          (* for c in capabilities.split(): exactly one word here *)
                    | [w] =>
                    let cap := ch ++ [COMMA] ++ w in
                    match k with
                    | CCapAdd => match C03.Model.ucs_add (caps u) cap with
                                 | Ok cs => ESet u (MCaps cs)
                                 | Raise _ => ENone
                                 end
                    | _ => ESet u (MCaps (C03.Model.sremove (C03.Model.fold cap) (caps u)))
                    end
                    | _ => ENone
                    end
                  else ENone
              | _ => ENone
              end
          | _ => ENone
          end
      | CCapSet =>
          match r with
          | [] => ENone
          | _ => if forallb is_capname r
                 then EChan ch (C03.Model.Chan (chan_adds (C03.Model.ch_caps (chan_of s ch)) r) (C03.Model.ch_default (chan_of s ch)))
                 else ENone
          end
      | CCapUnset =>
          match r with
          | [] => ENone
          | _ => if forallb is_capname r
                 then EChan ch (C03.Model.Chan (chan_removes (C03.Model.ch_caps (chan_of s ch)) r) (C03.Model.ch_default (chan_of s ch)))
                 else ENone
          end
      | CCapSetdefault =>
          match r with
          | [b] => match to_bool b with
                   | Some v => EChan ch (C03.Model.Chan (C03.Model.ch_caps (chan_of s ch)) v)
                   | None => ENone
                   end
          | _ => ENone
          end
      | _ => ENone
      end
  end.

(* the 'private' converter: refused (errorRequiresPrivacy) when the message was said in a channel *)
Definition needs_private (k : cmd) : bool :=
  match k with
  | URegister | UUnregister | UChangename | UIdentify | UHostAdd | UHostRemove | USetPassword | USetSecure => true
  | _ => false
  end.
Definition in_private (E : env) : bool := match e_chan E with None => true | Some _ => false end.

Definition decide (k : cmd) (s : st) (E : env) (args : list str) : effect :=
  if needs_private k && negb (in_private E) then ENone else
  match k with
  | URegister => d_register s E args
  | UUnregister => d_unregister s E args
  | UChangename => d_changename s E args
  | UIdentify => d_identify s E args
  | UUnidentify => d_unidentify s E args
  | UHostAdd => d_hostadd s E args
  | UHostRemove => d_hostremove s E args
  | USetPassword => d_setpassword s E args
  | USetSecure => d_setsecure s E args
  | ACapAdd => d_acapadd s E args
  | ACapRemove => d_acapremove s E args
  | AIgnAdd => d_aignadd s E args
  | AIgnRemove => d_aignremove s E args
  | CCapAdd | CCapRemove | CCapSet | CCapUnset | CCapSetdefault => d_ccap k s E args
  end.

(* ------------------------------------------------------------------ *)
(* command table: words, command; the converter lists are pinned by specs_ok below *)

Definition commands : list (list str * cmd) :=
  [ ([[117; 115; 101; 114]; [114; 101; 103; 105; 115; 116; 101; 114]], URegister);
    ([[117; 115; 101; 114]; [117; 110; 114; 101; 103; 105; 115; 116; 101; 114]], UUnregister);
    ([[117; 115; 101; 114]; [99; 104; 97; 110; 103; 101; 110; 97; 109; 101]], UChangename);
    ([[117; 115; 101; 114]; [105; 100; 101; 110; 116; 105; 102; 121]], UIdentify);
    ([[117; 115; 101; 114]; [117; 110; 105; 100; 101; 110; 116; 105; 102; 121]], UUnidentify);
    ([[117; 115; 101; 114]; [104; 111; 115; 116; 109; 97; 115; 107]; [97; 100; 100]], UHostAdd);
    ([[117; 115; 101; 114]; [104; 111; 115; 116; 109; 97; 115; 107]; [114; 101; 109; 111; 118; 101]], UHostRemove);
    ([[117; 115; 101; 114]; [115; 101; 116]; [112; 97; 115; 115; 119; 111; 114; 100]], USetPassword);
    ([[117; 115; 101; 114]; [115; 101; 116]; [115; 101; 99; 117; 114; 101]], USetSecure);
    ([[97; 100; 109; 105; 110]; [99; 97; 112; 97; 98; 105; 108; 105; 116; 121]; [97; 100; 100]], ACapAdd);
    ([[97; 100; 109; 105; 110]; [99; 97; 112; 97; 98; 105; 108; 105; 116; 121]; [114; 101; 109; 111; 118; 101]], ACapRemove);
    ([[97; 100; 109; 105; 110]; [105; 103; 110; 111; 114; 101]; [97; 100; 100]], AIgnAdd);
    ([[97; 100; 109; 105; 110]; [105; 103; 110; 111; 114; 101]; [114; 101; 109; 111; 118; 101]], AIgnRemove);
    ([[99; 104; 97; 110; 110; 101; 108]; [99; 97; 112; 97; 98; 105; 108; 105; 116; 121]; [97; 100; 100]], CCapAdd);
    ([[99; 104; 97; 110; 110; 101; 108]; [99; 97; 112; 97; 98; 105; 108; 105; 116; 121]; [114; 101; 109; 111; 118; 101]], CCapRemove);
    ([[99; 104; 97; 110; 110; 101; 108]; [99; 97; 112; 97; 98; 105; 108; 105; 116; 121]; [115; 101; 116]], CCapSet);
    ([[99; 104; 97; 110; 110; 101; 108]; [99; 97; 112; 97; 98; 105; 108; 105; 116; 121]; [117; 110; 115; 101; 116]], CCapUnset);
    ([[99; 104; 97; 110; 110; 101; 108]; [99; 97; 112; 97; 98; 105; 108; 105; 116; 121]; [115; 101; 116; 100; 101; 102; 97; 117; 108; 116]], CCapSetdefault) ].

(* expected_specs, readable:
     user register : ['private', 'something', 'something']
     user unregister : ['private', 'otherUser', additional('anything')]
     user changename : ['private', 'otherUser', 'something', additional('something', '')]
     user identify : ['private', 'otherUser', 'something']
     user unidentify : ['user']
     user hostmask add : ['private', first('otherUser', 'user'), optional('something'), additional('something', '')]
     user hostmask remove : ['private', first('otherUser', 'user'), optional('something'), additional('something', '')]
     user set password : ['private', optional('otherUser'), 'something', 'something']
     user set secure : ['private', 'user', 'something', additional('boolean')]
     admin capability add : ['otherUser', 'lowered']
     admin capability remove : ['otherUser', 'lowered']
     admin ignore add : ['hostmask', additional('expiry', 0)]
     admin ignore remove : ['hostmask']
     channel capability add : ['op', 'otherUser', 'capability']
     channel capability remove : ['op', 'otherUser', 'capability']
     channel capability set : ['op', many('capability')]
     channel capability unset : ['op', many('capability')]
     channel capability setdefault : ['op', 'boolean']
*)
Definition expected_specs : list (str * str) :=
  [ ([117; 115; 101; 114; 32; 114; 101; 103; 105; 115; 116; 101; 114], [91; 39; 112; 114; 105; 118; 97; 116; 101; 39; 44; 32; 39; 115; 111; 109; 101; 116; 104; 105; 110; 103; 39; 44; 32; 39; 115; 111; 109; 101; 116; 104; 105; 110; 103; 39; 93]);
    ([117; 115; 101; 114; 32; 117; 110; 114; 101; 103; 105; 115; 116; 101; 114], [91; 39; 112; 114; 105; 118; 97; 116; 101; 39; 44; 32; 39; 111; 116; 104; 101; 114; 85; 115; 101; 114; 39; 44; 32; 97; 100; 100; 105; 116; 105; 111; 110; 97; 108; 40; 39; 97; 110; 121; 116; 104; 105; 110; 103; 39; 41; 93]);
    ([117; 115; 101; 114; 32; 99; 104; 97; 110; 103; 101; 110; 97; 109; 101], [91; 39; 112; 114; 105; 118; 97; 116; 101; 39; 44; 32; 39; 111; 116; 104; 101; 114; 85; 115; 101; 114; 39; 44; 32; 39; 115; 111; 109; 101; 116; 104; 105; 110; 103; 39; 44; 32; 97; 100; 100; 105; 116; 105; 111; 110; 97; 108; 40; 39; 115; 111; 109; 101; 116; 104; 105; 110; 103; 39; 44; 32; 39; 39; 41; 93]);
    ([117; 115; 101; 114; 32; 105; 100; 101; 110; 116; 105; 102; 121], [91; 39; 112; 114; 105; 118; 97; 116; 101; 39; 44; 32; 39; 111; 116; 104; 101; 114; 85; 115; 101; 114; 39; 44; 32; 39; 115; 111; 109; 101; 116; 104; 105; 110; 103; 39; 93]);
    ([117; 115; 101; 114; 32; 117; 110; 105; 100; 101; 110; 116; 105; 102; 121], [91; 39; 117; 115; 101; 114; 39; 93]);
    ([117; 115; 101; 114; 32; 104; 111; 115; 116; 109; 97; 115; 107; 32; 97; 100; 100], [91; 39; 112; 114; 105; 118; 97; 116; 101; 39; 44; 32; 102; 105; 114; 115; 116; 40; 39; 111; 116; 104; 101; 114; 85; 115; 101; 114; 39; 44; 32; 39; 117; 115; 101; 114; 39; 41; 44; 32; 111; 112; 116; 105; 111; 110; 97; 108; 40; 39; 115; 111; 109; 101; 116; 104; 105; 110; 103; 39; 41; 44; 32; 97; 100; 100; 105; 116; 105; 111; 110; 97; 108; 40; 39; 115; 111; 109; 101; 116; 104; 105; 110; 103; 39; 44; 32; 39; 39; 41; 93]);
    ([117; 115; 101; 114; 32; 104; 111; 115; 116; 109; 97; 115; 107; 32; 114; 101; 109; 111; 118; 101], [91; 39; 112; 114; 105; 118; 97; 116; 101; 39; 44; 32; 102; 105; 114; 115; 116; 40; 39; 111; 116; 104; 101; 114; 85; 115; 101; 114; 39; 44; 32; 39; 117; 115; 101; 114; 39; 41; 44; 32; 111; 112; 116; 105; 111; 110; 97; 108; 40; 39; 115; 111; 109; 101; 116; 104; 105; 110; 103; 39; 41; 44; 32; 97; 100; 100; 105; 116; 105; 111; 110; 97; 108; 40; 39; 115; 111; 109; 101; 116; 104; 105; 110; 103; 39; 44; 32; 39; 39; 41; 93]);
    ([117; 115; 101; 114; 32; 115; 101; 116; 32; 112; 97; 115; 115; 119; 111; 114; 100], [91; 39; 112; 114; 105; 118; 97; 116; 101; 39; 44; 32; 111; 112; 116; 105; 111; 110; 97; 108; 40; 39; 111; 116; 104; 101; 114; 85; 115; 101; 114; 39; 41; 44; 32; 39; 115; 111; 109; 101; 116; 104; 105; 110; 103; 39; 44; 32; 39; 115; 111; 109; 101; 116; 104; 105; 110; 103; 39; 93]);
    ([117; 115; 101; 114; 32; 115; 101; 116; 32; 115; 101; 99; 117; 114; 101], [91; 39; 112; 114; 105; 118; 97; 116; 101; 39; 44; 32; 39; 117; 115; 101; 114; 39; 44; 32; 39; 115; 111; 109; 101; 116; 104; 105; 110; 103; 39; 44; 32; 97; 100; 100; 105; 116; 105; 111; 110; 97; 108; 40; 39; 98; 111; 111; 108; 101; 97; 110; 39; 41; 93]);
    ([97; 100; 109; 105; 110; 32; 99; 97; 112; 97; 98; 105; 108; 105; 116; 121; 32; 97; 100; 100], [91; 39; 111; 116; 104; 101; 114; 85; 115; 101; 114; 39; 44; 32; 39; 108; 111; 119; 101; 114; 101; 100; 39; 93]);
    ([97; 100; 109; 105; 110; 32; 99; 97; 112; 97; 98; 105; 108; 105; 116; 121; 32; 114; 101; 109; 111; 118; 101], [91; 39; 111; 116; 104; 101; 114; 85; 115; 101; 114; 39; 44; 32; 39; 108; 111; 119; 101; 114; 101; 100; 39; 93]);
    ([97; 100; 109; 105; 110; 32; 105; 103; 110; 111; 114; 101; 32; 97; 100; 100], [91; 39; 104; 111; 115; 116; 109; 97; 115; 107; 39; 44; 32; 97; 100; 100; 105; 116; 105; 111; 110; 97; 108; 40; 39; 101; 120; 112; 105; 114; 121; 39; 44; 32; 48; 41; 93]);
    ([97; 100; 109; 105; 110; 32; 105; 103; 110; 111; 114; 101; 32; 114; 101; 109; 111; 118; 101], [91; 39; 104; 111; 115; 116; 109; 97; 115; 107; 39; 93]);
    ([99; 104; 97; 110; 110; 101; 108; 32; 99; 97; 112; 97; 98; 105; 108; 105; 116; 121; 32; 97; 100; 100], [91; 39; 111; 112; 39; 44; 32; 39; 111; 116; 104; 101; 114; 85; 115; 101; 114; 39; 44; 32; 39; 99; 97; 112; 97; 98; 105; 108; 105; 116; 121; 39; 93]);
    ([99; 104; 97; 110; 110; 101; 108; 32; 99; 97; 112; 97; 98; 105; 108; 105; 116; 121; 32; 114; 101; 109; 111; 118; 101], [91; 39; 111; 112; 39; 44; 32; 39; 111; 116; 104; 101; 114; 85; 115; 101; 114; 39; 44; 32; 39; 99; 97; 112; 97; 98; 105; 108; 105; 116; 121; 39; 93]);
    ([99; 104; 97; 110; 110; 101; 108; 32; 99; 97; 112; 97; 98; 105; 108; 105; 116; 121; 32; 115; 101; 116], [91; 39; 111; 112; 39; 44; 32; 109; 97; 110; 121; 40; 39; 99; 97; 112; 97; 98; 105; 108; 105; 116; 121; 39; 41; 93]);
    ([99; 104; 97; 110; 110; 101; 108; 32; 99; 97; 112; 97; 98; 105; 108; 105; 116; 121; 32; 117; 110; 115; 101; 116], [91; 39; 111; 112; 39; 44; 32; 109; 97; 110; 121; 40; 39; 99; 97; 112; 97; 98; 105; 108; 105; 116; 121; 39; 41; 93]);
    ([99; 104; 97; 110; 110; 101; 108; 32; 99; 97; 112; 97; 98; 105; 108; 105; 116; 121; 32; 115; 101; 116; 100; 101; 102; 97; 117; 108; 116], [91; 39; 111; 112; 39; 44; 32; 39; 98; 111; 111; 108; 101; 97; 110; 39; 93]) ].

Definition specs_ok (t : list (str * str)) : bool :=
  C16.Model.list_eqb (fun a b => seq_eqb (fst a) (fst b) && seq_eqb (snd a) (snd b)) t expected_specs
  && C16.Model.list_eqb seq_eqb (map (fun wc => join [32] (fst wc)) commands) (map fst expected_specs).

(* the pattern of ircutils.userHostmaskRe that C16.Model.is_user_hostmask mirrors:  ^\S+!\S+@\S+$  *)
Definition expected_hostmask_re : str := [94; 92; 83; 43; 33; 92; 83; 43; 64; 92; 83; 43; 36].
Definition hostmask_re_ok (t : str) : bool := seq_eqb t expected_hostmask_re.

(* longest-prefix match of the command words (the generator only uses canonical spellings) *)
Fixpoint strip_words (ws toks : list str) : option (list str) :=
  match ws, toks with
  | [], _ => Some toks
  | w :: ws', t :: toks' => if seq_eqb w t then strip_words ws' toks' else None
  | _ :: _, [] => None
  end.
Fixpoint find_cmd (tbl : list (list str * cmd)) (toks : list str) : option (list str * cmd * list str) :=
  match tbl with
  | [] => None
  | (ws, k) :: r => match strip_words ws toks with
                    | Some args => Some (ws, k, args)
                    | None => find_cmd r toks
                    end
  end.

(* the names checkCommandCapability is asked about: "Y", then "P", "P.X", "P.X.Y" *)
Fixpoint prefixes (acc : str) (ws : list str) : list str :=
  match ws with
  | [] => []
  | w :: r => let n := match acc with [] => w | _ => acc ++ [DOT] ++ w end in n :: prefixes n r
  end.
Definition gate_names (ws : list str) : list str := last ws [] :: prefixes [] ws.

(* Commands._callCommand: refused when the caller holds the anticapability of one of the names
   (this is the 'admin' gate: -admin is a default capability) *)
(* callbacks.checkCommandCapability(msg, cb, n): refused when the caller holds -n (or, in a channel, "<ch>,-n"), or when
   nothing allows n: not (capabilities.default [and the channel's defaultAllow] or holds n [or "<ch>,n"]) *)
Definition name_blocked (s : st) (E : env) (n : str) : bool :=
  holds s E (DASH :: n)
  || match e_chan E with
     | None => negb gen.T02.DEFAULT_FLAG && negb (holds s E n)
     | Some ch =>
         negb (C03.Model.isChannel ch)        (* assert in makeChannelCapability: the command is not dispatched *)
         || holds s E (ch ++ [COMMA] ++ DASH :: n)
         || (negb (gen.T02.DEFAULT_FLAG && C03.Model.ch_default (chan_of s ch))
             && negb (holds s E n || holds s E (ch ++ [COMMA] ++ n)))
     end.
Definition gate_blocked (s : st) (E : env) (ws : list str) : bool :=
  existsb (name_blocked s E) (gate_names ws).

(* ircdb.checkIgnored(msg.prefix) in Owner.doPrivmsg *)
Definition ignored (s : st) (E : env) : bool :=
  let db := existsb (fun pat => C04.Model.hmatch pat (e_prefix E)) (s_ignores s) in
  match caller s E with
  | Some a => match C03.Model.user_check (to3 a) TRUSTED false with
              | Ok true => false
              | _ => if C16.Model.u_ignore (a_u a) then true else db
              end
  | None => db
  end.

(* callbacks.tokenize with the default configuration: nested on, brackets "[]", no pipe, double quote as the only quote character *)
Definition no_names (_ : bytes) : option N := None.
Definition default_cfg : C13.Model.cfg := C13.Model.Cfg true (Some (91, 93)) false [34].
Fixpoint leaves (l : list C13.Model.tree) : option (list str) :=
  match l with
  | [] => Some []
  | C13.Model.Leaf x :: r => option_map (cons x) (leaves r)
  | C13.Model.Node _ :: _ => None                    (* nested command: outside the model *)
  end.
Definition tokens (text : str) : option (list str) :=
  match C13.Model.tokenize no_names default_cfg text with
  | Ok tr => leaves tr
  | Raise _ => None
  end.

(* what one private message from e_prefix does: the command it resolves to and the effect *)
Definition effect_of (s : st) (E : env) (text : str) : effect :=
  if ignored s E then ENone
  else match tokens text with
       | None => ENone
       | Some toks =>
           match find_cmd commands toks with
           | None => ENone
           | Some (ws, k, args) => if gate_blocked s E ws then ENone else decide k s E args
           end
       end.

(* ------------------------------------------------------------------ *)
(* the decidable form of the [grant] relation of C02_grow_only_entitled (C02/Grant.v proves grantb = true <-> grant):
   may the message `text` from E's sender, in state s, put capability c into account z?  The harness evaluates it
   on the REAL before-state for every capability that appears in an account. *)
Definition admin_add_words : list str :=
  [[97; 100; 109; 105; 110]; [99; 97; 112; 97; 98; 105; 108; 105; 116; 121]; [97; 100; 100]].      (* admin capability add *)
Definition chan_add_words : list str :=
  [[99; 104; 97; 110; 110; 101; 108]; [99; 97; 112; 97; 98; 105; 108; 105; 116; 121]; [97; 100; 100]].  (* channel capability add *)

Definition is_ok {A} (r : res A) : bool := match r with Ok _ => true | Raise _ => false end.

Definition grantb_admin (s : st) (E : env) (n craw : str) (z : Z) (c : str) : bool :=
  negb (gate_blocked s E admin_add_words) &&
  match conv_other s E n with
  | Some u =>
      Z.eqb (aid u) z && seq_eqb c (C03.Model.fold craw) && C16.Model.token c
      && negb (seq_eqb (C03.Model.fold c) OWNER)
      && (C03.Model.isAntiCapability c || holds s E c)
      && is_ok (C03.Model.ucs_add (caps u) c)
  | None => false
  end.

Definition grantb_chan (s : st) (E : env) (args : list str) (z : Z) (c : str) : bool :=
  negb (gate_blocked s E chan_add_words) &&
  match conv_op s E args with
  | Some (ch, [n; craw]) =>
      match conv_other s E n, C16.Model.split_ws craw with
      | Some u, [w] =>
          Z.eqb (aid u) z && seq_eqb c (C03.Model.fold (ch ++ [COMMA] ++ w))
          && is_ok (C03.Model.ucs_add (caps u) (ch ++ [COMMA] ++ w))
      | _, _ => false
      end
  | _ => false
  end.

Definition grantb (s : st) (E : env) (text : str) (z : Z) (c : str) : bool :=
  negb (ignored s E) &&
  match tokens text with
  | None => false
  | Some toks =>
      match strip_words admin_add_words toks with
      | Some [n; craw] => grantb_admin s E n craw z c
      | Some _ => false
      | None =>
          match strip_words chan_add_words toks with
          | Some args => grantb_chan s E args z c
          | None => false
          end
      end
  end.

(* ------------------------------------------------------------------ *)
(* histories *)

Inductive op :=
| OCmd (E : env) (text : str)
| OFlush                       (* users.flush(): the file is a function of the state; nothing changes in memory *)
| OReload.                     (* users.flush(); users.reload() *)

Definition db_of (s : st) : list C16.Model.user := map a_u (s_users s).

Definition reload (s : st) : st :=
  let '(us, _) := C16.Model.read_users_from (s_creator s) (C16.Model.write_users (db_of s)) in
  St (map (fun u => Acct u []) (C16.Model.us_db us)) (C16.Model.us_next us) (C16.Model.us_u us) (s_chans s) (s_ignores s).

Definition step (s : st) (o : op) : st :=
  match o with
  | OCmd E text => apply_effect s E (effect_of s E text)
  | OFlush => s
  | OReload => reload s
  end.

Definition run_ops (s : st) (ops : list op) : st := fold_left step ops s.

(* the decidable domain of the reload theorem: C16's domain on the accounts being written *)
Definition reload_dom (s : st) : bool := C16.Model.users_dom (db_of s) && match s_creator s with None => true | Some _ => false end.

(* every account name is a safe field (no CR/LF/TAB, not blank, no leading whitespace): the class predicate of F1 *)
Definition names_safe (s : st) : bool := forallb (fun a => C16.Model.safe_field (C16.Model.u_name (a_u a))) (s_users s).

(* ------------------------------------------------------------------ *)
(* domains of the reload theorem (extracted; the harness reports them at every reload) *)

(* a capability that UserCapabilitySet.add accepts and stores unchanged: one token, already folded, not -owner *)
Definition addable (c : str) : bool :=
  C16.Model.token c && seq_eqb (C16.Model.fold c) c && negb (seq_eqb c C16.Model.ANTIOWNER)
  && match C16.Model.invertCapability c with Ok _ => true | Raise _ => false end.

Definition nick_ok (nn : str * list str) : bool :=
  C16.Model.token (fst nn) && match snd nn with [] => false | _ => true end
  && forallb (fun n => C16.Model.no_nl_tab n && negb (mem C16.Model.SP n)) (snd nn).

(* an account every field of which is written on lines that are read back as that field (a hostmask: up to one
   trailing newline) *)
Definition wf_user (u : C16.Model.user) : bool :=
  match C16.Model.u_id u with Some z => Z.leb 0 z | None => false end
  && C16.Model.safe_field (C16.Model.u_name u) && negb (C16.Model.is_user_hostmask (C16.Model.u_name u))
  && C16.Model.u_hashed u && C16.Model.safe_field (C16.Model.u_password u)
  && forallb addable (C16.Model.u_caps u)
  && forallb C16.Model.is_user_hostmask (C16.Model.u_hosts u)
  && forallb nick_ok (C16.Model.u_nicks u) && C16.Model.nicks_stable (C16.Model.u_nicks u)
  && forallb C16.Model.safe_field (C16.Model.u_gpg u).
(* statistics only: every stored hostmask is a single token (false after `user hostmask add "a!b@c\n"`,
   which isUserHostmask accepts: its `$` tolerates one trailing newline; the reader theorem covers it) *)
Definition hosts_ok (u : C16.Model.user) : bool := forallb C16.Model.token (C16.Model.u_hosts u).
(* what a "hostmask" line of users.conf is read back as *)
Definition strip_lf (h : str) : str :=
  match rev h with c :: r => if N.eqb c C16.Model.LF then rev r else h | [] => h end.

Definition wf_acct (a : acct) : bool := wf_user (a_u a).
(* the invariant of the command histories (proved in Inv.v) *)
Definition wf_state (s : st) : bool :=
  forallb wf_acct (s_users s) && Z.leb 0 (s_next s)
  && match s_creator s with
     | None => true
     | Some q => match C16.Model.u_id q with Some _ => true | None => false end
     end.
Definition hosts_dom (s : st) : bool := forallb (fun a => hosts_ok (a_u a)) (s_users s).

(* ------------------------------------------------------------------ *)
(* wire *)

Definition gEnv (v : value) : env :=
  Env (gS (nth_v 0 v))
      (map (fun e => (gS (nth_v 0 e), gO gZ (nth_v 1 e))) (gL (nth_v 1 v)))
      (map (fun e => (gS (nth_v 0 e), gS (nth_v 1 e))) (gL (nth_v 2 v)))
      (gO gS (nth_v 3 v)).
Definition gOp (v : value) : op :=
  match gN (nth_v 0 v) with
  | 0 => OCmd (gEnv (nth_v 1 v)) (gS (nth_v 2 v))
  | 1 => OFlush
  | _ => OReload
  end.
Definition gAcct (v : value) : acct := Acct (C16.Model.gUser (nth_v 0 v)) (gLS (nth_v 1 v)).
Definition gChan (v : value) : str * C03.Model.chan :=
  (gS (nth_v 0 v), C03.Model.Chan (gLS (nth_v 1 v)) (gB (nth_v 2 v))).
Definition gSt (v : value) : st :=
  St (map gAcct (gL (nth_v 0 v))) (gZ (nth_v 1 v)) (gO C16.Model.gUser (nth_v 2 v))
     (map gChan (gL (nth_v 3 v))) (gLS (nth_v 4 v)).

(* the password is reported as present / absent only (the real one is a salted hash) *)
Definition vAcct (a : acct) : value :=
  let u := a_u a in
  L [vO I (C16.Model.u_id u); vS (C16.Model.u_name u); vB (C16.Model.u_ignore u); vB (C16.Model.u_secure u); vB (C16.Model.u_hashed u);
     vB (nonempty (C16.Model.u_password u)); vLS (C16.Model.u_caps u); vLS (C16.Model.u_hosts u); vLS (a_auth a);
     L (map (fun nn => L [vS (fst nn); vLS (snd nn)]) (C16.Model.u_nicks u)); vLS (C16.Model.u_gpg u)].
Definition vSt (s : st) : value :=
  L [L (map vAcct (s_users s)); I (s_next s);
     vB (match s_creator s with None => false | Some _ => true end);
     L (map (fun kc => L [vS (fst kc); vLS (C03.Model.ch_caps (snd kc)); vB (C03.Model.ch_default (snd kc))]) (s_chans s));
     vLS (s_ignores s)].

Definition eff_code (e : effect) : Z :=
  match e with
  | ENone => 0 | ESet _ _ => 1 | EDel _ => 2 | ERegister _ _ _ => 3 | EChan _ _ => 4 | EIgnAdd _ => 5 | EIgnDel _ => 6
  end%Z.

(* after each op: (state dump, reload_dom / names_safe before the op, effect code, wf_state / hosts_dom before the op) *)
Fixpoint trace (s : st) (ops : list op) : list value :=
  match ops with
  | [] => []
  | o :: r =>
      let s' := step s o in
      L [vSt s'; vB (reload_dom s); vB (names_safe s);
         I (match o with OCmd E t => eff_code (effect_of s E t) | _ => (-1)%Z end);
         vB (wf_state s); vB (hosts_dom s)] :: trace s' r
  end.

(* run (kind payload):
   0: (state ops)   -> list of (dump reload_dom names_safe effect) after each op
   1: text          -> tokens of a command text (or () when outside the model)
   2: ()            -> specs_ok on the regenerated table
   3: (state env text id cap) -> grantb: does the [grant] relation allow this capability to appear? *)
Definition run (v : value) : value :=
  let p := nth_v 1 v in
  match gN (nth_v 0 v) with
  | 0 => L (trace (gSt (nth_v 0 p)) (map gOp (gL (nth_v 1 p))))
  | 1 => vO vLS (tokens (gS p))
  | 2 => vB (specs_ok gen.T02.SPECS)
  | 3 => vB (grantb (gSt (nth_v 0 p)) (gEnv (nth_v 1 p)) (gS (nth_v 2 p)) (gZ (nth_v 3 p)) (gS (nth_v 4 p)))
  | _ => L []
  end.
