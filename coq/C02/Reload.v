(* C02/Reload.v — flush+reload: composition with C16's round trip; the refuting witnesses F1 and F43;
   non-vacuity examples.  (Concrete strings are code-point lists; the text is given next to each.) *)
From Coq Require Import List NArith ZArith Bool Permutation.
Import ListNotations.
Require Import Base.Wire Base.PyStr C02.Model C02.Lemmas C02.Inv C02.Grant.
Require C03.Model C16.Model C16.Roundtrip C16.Props.
Open Scope N_scope.

Lemma reload_on_domain s : reload_dom s = true -> owners_sub (s_users (reload s)) (s_users s).
Proof.
  unfold reload_dom, reload. intro H. apply andb_true_iff in H as [Hd Hc].
  destruct (s_creator s); [discriminate|].
  change (C16.Model.read_users_from None (C16.Model.write_users (db_of s)))
    with (C16.Model.read_users (C16.Model.write_users (db_of s))).
  rewrite (C16.Props.C16_users_roundtrip_on_domain _ Hd). simpl.
  intros z [x [Hx [Hz Ho]]]. apply in_map_iff in Hx as [u [Hu Hin]]. subst x.
  apply (Permutation_in _ (C16.Roundtrip.sort_users_perm _)) in Hin.
  unfold db_of in Hin. apply in_map_iff in Hin as [a [Ha Hin]]. subst u.
  exists a. split; [exact Hin|]. split; [exact Hz|exact Ho].
Qed.

(* a history whose reload points are all inside the domain *)
Fixpoint reloads_in_dom (s : st) (ops : list op) : bool :=
  match ops with
  | [] => true
  | o :: r => (match o with OReload => reload_dom s | _ => true end) && reloads_in_dom (step s o) r
  end.

Lemma step_sub_dom s o :
  (match o with OReload => reload_dom s | _ => true end) = true ->
  owners_sub (s_users (step s o)) (s_users s).
Proof.
  destruct o; intro H.
  - apply step_sub. exact Logic.I.
  - apply step_sub. exact Logic.I.
  - simpl. apply reload_on_domain. exact H.
Qed.

Lemma run_ops_sub_dom ops : forall s, reloads_in_dom s ops = true ->
  owners_sub (s_users (run_ops s ops)) (s_users s).
Proof.
  unfold run_ops. induction ops as [|o r IH]; intros s H; simpl.
  - apply owners_sub_refl.
  - simpl in H. apply andb_true_iff in H as [H1 H2].
    eapply owners_sub_trans; [apply IH; exact H2|]. apply step_sub_dom. exact H1.
Qed.

(* ---- the witnesses ---- *)
(* accounts: 1 boss (owner, never speaks), 2 adm (admin, #c,op), 3 plain *)
Definition s0 : st :=
  St [Acct (C16.Model.User (Some 1%Z) [98; 111; 115; 115] false false true [104; 124; 57; 56; 46; 49; 49; 50; 46; 49; 49; 57; 46] [[111; 119; 110; 101; 114]] [[98; 111; 115; 115; 33; 111; 64; 104; 111; 115; 116; 46; 111; 119; 110; 101; 114]] [] []) [];
      Acct (C16.Model.User (Some 2%Z) [97; 100; 109] false false true [104; 124; 57; 55; 46; 49; 49; 50; 46; 49; 49; 57; 46] [[97; 100; 109; 105; 110]; [35; 99; 44; 111; 112]] [[97; 100; 109; 33; 109; 64; 104; 111; 115; 116; 46; 97; 100; 109]] [] []) [];
      Acct (C16.Model.User (Some 3%Z) [112; 108; 97; 105; 110] false false true [104; 124; 49; 49; 50; 46; 49; 49; 50; 46; 49; 49; 57; 46] [] [[112; 108; 97; 105; 110; 33; 112; 64; 104; 111; 115; 116; 46; 112; 108; 97; 105; 110]] [] []) []] 3%Z None [] [].
Definition nicks0 : list (str * str) := [([97; 110; 111; 110], [97; 110; 111; 110; 33; 97; 64; 104; 111; 115; 116; 46; 97; 110; 111; 110]); ([112; 108; 97; 105; 110], [112; 108; 97; 105; 110; 33; 112; 64; 104; 111; 115; 116; 46; 112; 108; 97; 105; 110]); ([97; 100; 109], [97; 100; 109; 33; 109; 64; 104; 111; 115; 116; 46; 97; 100; 109])].
Definition p_anon : str := [97; 110; 111; 110; 33; 97; 64; 104; 111; 115; 116; 46; 97; 110; 111; 110].
Definition p_adm : str := [97; 100; 109; 33; 109; 64; 104; 111; 115; 116; 46; 97; 100; 109].
Definition p_plain : str := [112; 108; 97; 105; 110; 33; 112; 64; 104; 111; 115; 116; 46; 112; 108; 97; 105; 110].
Definition E_anon : env := Env p_anon [(p_anon, None)] nicks0 None.
Definition E_adm : env := Env p_adm [(p_adm, Some 2%Z)] nicks0 None.
Definition E_plain : env := Env p_plain [(p_plain, Some 3%Z)] nicks0 None.
(* the same senders speaking in channel #c *)
Definition E_adm_c : env := Env p_adm [(p_adm, Some 2%Z)] nicks0 (Some [35; 99]).
Definition E_plain_c : env := Env p_plain [(p_plain, Some 3%Z)] nicks0 (Some [35; 99]).
Definition E_anon_c : env := Env p_anon [(p_anon, None)] nicks0 (Some [35; 99]).
(* user register ''x\n  capability owner'' pw *)
Definition t_f1 : str := [117; 115; 101; 114; 32; 114; 101; 103; 105; 115; 116; 101; 114; 32; 34; 120; 92; 110; 32; 32; 99; 97; 112; 97; 98; 105; 108; 105; 116; 121; 32; 111; 119; 110; 101; 114; 34; 32; 112; 119].
(* admin capability add plain '' owner'' *)
Definition t_f43 : str := [97; 100; 109; 105; 110; 32; 99; 97; 112; 97; 98; 105; 108; 105; 116; 121; 32; 97; 100; 100; 32; 112; 108; 97; 105; 110; 32; 34; 32; 111; 119; 110; 101; 114; 34].
(* admin capability add plain owner *)
Definition t_own : str := [97; 100; 109; 105; 110; 32; 99; 97; 112; 97; 98; 105; 108; 105; 116; 121; 32; 97; 100; 100; 32; 112; 108; 97; 105; 110; 32; 111; 119; 110; 101; 114].
(* admin capability add plain foo *)
Definition t_foo : str := [97; 100; 109; 105; 110; 32; 99; 97; 112; 97; 98; 105; 108; 105; 116; 121; 32; 97; 100; 100; 32; 112; 108; 97; 105; 110; 32; 102; 111; 111].
(* channel capability add #c plain voice *)
Definition t_chan : str := [99; 104; 97; 110; 110; 101; 108; 32; 99; 97; 112; 97; 98; 105; 108; 105; 116; 121; 32; 97; 100; 100; 32; 35; 99; 32; 112; 108; 97; 105; 110; 32; 118; 111; 105; 99; 101].

Definition h_f1 : list op := [OCmd E_anon t_f1; OReload].
Definition h_f43 : list op := [OCmd E_adm t_f43; OReload].

(* the two escalation inputs of the pinned tree (old findings C02.F1, C02.F43) are now refused outright *)
Example f1_refused : effect_of s0 E_anon t_f1 = ENone.
Proof. vm_compute. reflexivity. Qed.
Example f43_refused : effect_of s0 E_adm t_f43 = ENone.
Proof. vm_compute. reflexivity. Qed.

(* ---- non-vacuity ---- *)
(* the domain is inhabited by a database with an owner, and by a history that changes it and reloads *)
Example ex_dom : reload_dom s0 = true.
Proof. vm_compute. reflexivity. Qed.
Example ex_history_in_dom :
  reloads_in_dom s0 [OCmd E_adm t_foo; OReload; OCmd E_adm t_chan; OReload] = true /\
  exists a, In a (s_users (run_ops s0 [OCmd E_adm t_foo; OReload; OCmd E_adm t_chan; OReload])) /\ aid a = 3%Z /\
            List.length (caps a) = 2%nat.
Proof.
  split; [vm_compute; reflexivity|].
  remember (run_ops s0 _) as r eqn:R. vm_compute in R. subst r.
  eexists. split; [simpl; right; right; left; reflexivity|]. split; vm_compute; reflexivity.
Qed.
(* the admin passes the gate and can add "foo", and exactly the same command with "owner" has no effect *)
Example ex_admin_adds_foo : eff_code (effect_of s0 E_adm t_foo) = 1%Z.
Proof. vm_compute. reflexivity. Qed.
Example ex_admin_refused_owner : effect_of s0 E_adm t_own = ENone.
Proof. vm_compute. reflexivity. Qed.
(* the same text from the plain user is stopped by the admin gate *)
Example ex_plain_gated : effect_of s0 E_plain t_foo = ENone.
Proof. vm_compute. reflexivity. Qed.
(* a channel op grants a channel capability; the plain user (no #c,op) cannot *)
Example ex_chanop_adds : eff_code (effect_of s0 E_adm t_chan) = 1%Z.
Proof. vm_compute. reflexivity. Qed.
Example ex_chanop_gated : effect_of s0 E_plain t_chan = ENone.
Proof. vm_compute. reflexivity. Qed.

(* ---- the invariant-based theorem: non-vacuity ---- *)
Example ex_wf : wf_state s0 = true.
Proof. vm_compute. reflexivity. Qed.
(* two accounts with the same name and overlapping hostmasks: outside C16's users_dom (the load stops at the
   collision), inside the domain of C02_no_new_owner_reload *)
Definition s_dup : st :=
  St [Acct (C16.Model.User (Some 1%Z) [98; 111; 115; 115] false false true [104; 124; 57; 56; 46; 49; 49; 50; 46; 49; 49; 57; 46] [[111; 119; 110; 101; 114]] [[98; 111; 115; 115; 33; 111; 64; 104; 111; 115; 116; 46; 111; 119; 110; 101; 114]] [] []) [];
      Acct (C16.Model.User (Some 3%Z) [112; 108; 97; 105; 110] false false true [104; 124; 49; 49; 50; 46; 49; 49; 50; 46; 49; 49; 57; 46] [] [[112; 108; 97; 105; 110; 33; 112; 64; 104; 111; 115; 116; 46; 112; 108; 97; 105; 110]] [] []) [];
      Acct (C16.Model.User (Some 4%Z) [112; 108; 97; 105; 110] false false true [104; 124; 49; 49; 50; 46; 49; 49; 57; 46] [[102; 111; 111]] [[42; 33; 42; 64; 104; 111; 115; 116; 46; 112; 108; 97; 105; 110]] [] []) []] 4%Z None [] [].
Example ex_dup_covered : reload_dom s_dup = false /\ wf_state s_dup = true.
Proof. vm_compute. auto. Qed.

(* a hostmask with a trailing newline (what `user hostmask add "a!b@c\n"` stores): outside C16's domain and not a
   single token, inside wf_state *)
Definition s_nl : st :=
  St [Acct (C16.Model.User (Some 1%Z) [110; 108] false false true [104; 124; 49; 49; 50; 46; 49; 49; 57; 46] [] [[97; 33; 98; 64; 99; 10]] [] []) []] 1%Z None [] [].
Example ex_newline_hostmask_covered : reload_dom s_nl = false /\ hosts_dom s_nl = false /\ wf_state s_nl = true.
Proof. vm_compute. auto. Qed.

(* ---- C02_grow_only_entitled: non-vacuity ---- *)
Definition c_foo : str := [102; 111; 111].            (* foo *)
Definition c_chanvoice : str := [35; 99; 44; 118; 111; 105; 99; 101].      (* #c,voice *)

(* the admin legitimately grants "foo" to plain: plain (3) has it afterwards, did not have it before, and the
   step satisfies [grant] through the admin route *)
Example ex_grant_admin :
  (exists a', In a' (s_users (run_ops s0 [OCmd E_adm t_foo])) /\ aid a' = 3%Z /\ C03.Model.smem c_foo (caps a') = true)
  /\ ~ had (s_users s0) 3%Z c_foo
  /\ grant s0 E_adm t_foo 3%Z c_foo.
Proof.
  split; [|split].
  - remember (run_ops s0 [OCmd E_adm t_foo]) as r eqn:R. vm_compute in R. subst r.
    eexists. split; [simpl; right; right; left; reflexivity|]. split; vm_compute; reflexivity.
  - intros (a & Hin & Ha & Hc). simpl in Hin.
    destruct Hin as [H|[H|[H|[]]]]; subst a; vm_compute in Ha; vm_compute in Hc; congruence.
  - eapply (GAdmin s0 E_adm t_foo 3%Z c_foo [112; 108; 97; 105; 110] c_foo).
    + vm_compute; reflexivity.
    + vm_compute; reflexivity.
    + vm_compute; reflexivity.
    + vm_compute; reflexivity.
    + vm_compute; reflexivity.
    + vm_compute; reflexivity.
    + vm_compute; reflexivity.
    + vm_compute. discriminate.
    + right. vm_compute. reflexivity.
    + vm_compute; reflexivity.
Qed.

(* the channel op (adm holds #c,op) grants "#c,voice" to plain *)
Example ex_grant_chanop :
  (exists a', In a' (s_users (run_ops s0 [OCmd E_adm t_chan])) /\ aid a' = 3%Z /\ C03.Model.smem c_chanvoice (caps a') = true)
  /\ ~ had (s_users s0) 3%Z c_chanvoice
  /\ grant s0 E_adm t_chan 3%Z c_chanvoice.
Proof.
  split; [|split].
  - remember (run_ops s0 [OCmd E_adm t_chan]) as r eqn:R. vm_compute in R. subst r.
    eexists. split; [simpl; right; right; left; reflexivity|]. split; vm_compute; reflexivity.
  - intros (a & Hin & Ha & Hc). simpl in Hin.
    destruct Hin as [H|[H|[H|[]]]]; subst a; vm_compute in Ha; vm_compute in Hc; congruence.
  - eapply (GChan s0 E_adm t_chan 3%Z c_chanvoice [[35; 99]; [112; 108; 97; 105; 110]; [118; 111; 105; 99; 101]]
                   [35; 99] [112; 108; 97; 105; 110] [118; 111; 105; 99; 101] [118; 111; 105; 99; 101]).
    + vm_compute; reflexivity.
    + vm_compute; reflexivity.
    + vm_compute; reflexivity.
    + vm_compute; reflexivity.
    + vm_compute; reflexivity.
    + vm_compute; reflexivity.
    + vm_compute; reflexivity.
    + vm_compute; reflexivity.
    + vm_compute; reflexivity.
Qed.

(* a channel op of #c cannot hand out a capability of another channel: `channel capability add #c plain #d,op`
   stores "#c,#d,op" (a capability of #c), and the [grant] relation does not allow "#d,op" to appear *)
Definition t_cross : str := [99; 104; 97; 110; 110; 101; 108; 32; 99; 97; 112; 97; 98; 105; 108; 105; 116; 121; 32; 97; 100; 100; 32; 35; 99; 32; 112; 108; 97; 105; 110; 32; 35; 100; 44; 111; 112].
Definition c_dop : str := [35; 100; 44; 111; 112].          (* #d,op *)
Definition c_cdop : str := [35; 99; 44; 35; 100; 44; 111; 112].         (* #c,#d,op *)
Example ex_cross_channel_scoped :
  (exists a', In a' (s_users (step s0 (OCmd E_adm t_cross))) /\ aid a' = 3%Z /\ caps a' = [c_cdop])
  /\ grantb s0 E_adm t_cross 3%Z c_cdop = true
  /\ grantb s0 E_adm t_cross 3%Z c_dop = false.
Proof.
  split; [|split; vm_compute; reflexivity].
  remember (step s0 (OCmd E_adm t_cross)) as r eqn:R. vm_compute in R. subst r.
  eexists. split; [simpl; right; right; left; reflexivity|]. split; vm_compute; reflexivity.
Qed.

(* the old witnesses of C02.F44: `user hostmask add root` without password, from an unregistered sender, on an owner
   account without password (unhashed, as after a reload) and on one whose password is the empty string: refused *)
Definition s_nopw : st :=
  St [Acct (C16.Model.User (Some 1%Z) [114; 111; 111; 116] false false false [] [OWNER] [[114; 33; 114; 64; 104]] [] []) []] 1%Z None [] [].
Definition s_emptypw : st :=
  St [Acct (C16.Model.User (Some 1%Z) [114; 111; 111; 116] false false true (enc_pw []) [OWNER] [[114; 33; 114; 64; 104]] [] []) []] 1%Z None [] [].
Definition t_hostadd_root : str := [117; 115; 101; 114; 32; 104; 111; 115; 116; 109; 97; 115; 107; 32; 97; 100; 100; 32; 114; 111; 111; 116].
Example f44_refused :
  effect_of s_nopw E_anon t_hostadd_root = ENone /\ effect_of s_emptypw E_anon t_hostadd_root = ENone.
Proof. vm_compute. auto. Qed.

(* ---- messages said in a channel ---- *)
(* `channel capability add plain voice` said in #c by its op: the channel is the one the message was said in *)
Definition t_chan_implicit : str := [99; 104; 97; 110; 110; 101; 108; 32; 99; 97; 112; 97; 98; 105; 108; 105; 116; 121; 32; 97; 100; 100; 32; 112; 108; 97; 105; 110; 32; 118; 111; 105; 99; 101].
Example ex_inchannel_grant :
  eff_code (effect_of s0 E_adm_c t_chan_implicit) = 1%Z /\ grantb s0 E_adm_c t_chan_implicit 3%Z c_chanvoice = true
  /\ effect_of s0 E_plain_c t_chan_implicit = ENone            (* plain does not hold #c,op *)
  /\ effect_of s0 E_adm t_chan_implicit = ENone.               (* in private there is no channel to fall back on *)
Proof. vm_compute. auto. Qed.
(* the User commands refuse to run in a channel ('private'); the Admin ones run there under the same admin gate *)
Definition t_reg : str := [117; 115; 101; 114; 32; 114; 101; 103; 105; 115; 116; 101; 114; 32; 122; 101; 100; 32; 112; 119].
Example ex_inchannel_private :
  eff_code (effect_of s0 E_anon t_reg) = 3%Z /\ effect_of s0 E_anon_c t_reg = ENone
  /\ eff_code (effect_of s0 E_adm_c t_foo) = 1%Z /\ effect_of s0 E_plain_c t_foo = ENone.
Proof. vm_compute. auto. Qed.
