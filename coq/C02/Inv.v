(* C02/Inv.v — every account the modelled commands can write is well formed for users.conf
   (wf_user: id, name, hashed password, capabilities, hostmasks, nicks, gpg keys), by induction over the history, reloads included. *)
From Coq Require Import List NArith ZArith Bool Arith Lia ZifyBool Permutation.
Import ListNotations.
Require Import Base.Wire Base.PyStr C02.Model C02.Lemmas C02.Bridge C02.Reader.
Require C03.Model C03.Fold C16.Model C16.Lemmas C16.Roundtrip.
Open Scope N_scope.

Notation ws16 := C16.Model.ws.
Notation nonws := C16.Lemmas.nonws.

(* ---- strings ---- *)
Lemma skip_ws_len s : (List.length (C16.Model.skip_ws s) <= List.length s)%nat.
Proof. induction s as [|c s IH]; simpl; [lia|]. destruct (ws16 c); simpl; lia. Qed.

Lemma strip_fix_hd c t : C16.Model.strip_ws (c :: t) = c :: t -> ws16 c = false.
Proof.
  intro H. destruct (ws16 c) eqn:E; [|reflexivity]. exfalso.
  assert (L : (List.length (C16.Model.strip_ws (c :: t)) <= List.length t)%nat).
  { unfold C16.Model.strip_ws. rewrite rev_length.
    etransitivity; [apply skip_ws_len|]. rewrite rev_length. simpl. rewrite E. apply skip_ws_len. }
  rewrite H in L. simpl in L. lia.
Qed.

Definition forbidden_ok (t : list N) : bool :=
  mem C16.Model.TAB t && mem C16.Model.CR t && mem C16.Model.LF t.
Lemma forbidden_ok_current : forbidden_ok gen.T02.NAME_FORBIDDEN = true.
Proof. vm_compute. reflexivity. Qed.

Lemma existsb_false_mem (n : str) t c : existsb (fun c => mem c n) t = false -> mem c t = true -> mem c n = false.
Proof.
  intros H Hc. apply mem_In in Hc. destruct (mem c n) eqn:E; [|reflexivity].
  assert (existsb (fun c => mem c n) t = true) by (apply existsb_exists; exists c; auto). congruence.
Qed.

Lemma name_valid_safe n : nonempty n = true -> name_valid n = true ->
  C16.Model.safe_field n = true /\ C16.Model.is_user_hostmask n = false.
Proof.
  unfold name_valid. intros Hne H.
  apply andb_true_iff in H as [H H3]. apply andb_true_iff in H as [H1 H2].
  apply negb_true_iff in H1, H3. apply seq_eqb_eq in H2.
  split; [|exact H1].
  pose proof forbidden_ok_current as F. unfold forbidden_ok in F.
  apply andb_true_iff in F as [F FL]. apply andb_true_iff in F as [FT FC].
  unfold C16.Model.safe_field, C16.Model.no_nl_tab.
  rewrite (existsb_false_mem _ _ _ H3 FL), (existsb_false_mem _ _ _ H3 FC), (existsb_false_mem _ _ _ H3 FT).
  destruct n as [|c t]; [discriminate|]. simpl. rewrite (strip_fix_hd c t); [reflexivity|symmetry; exact H2].
Qed.

(* ---- the reader's line separators (regenerated from unpreserve.Reader.readFile) ---- *)
(* the characters at which the real reader ends a line are exactly those at which the model's reader (C16 split_nl)
   does, and every one of them is refused inside a user name by User._checkName *)
Definition lineseps_ok (t forb : list N) : bool :=
  forallb C16.Model.is_nl t && mem C16.Model.LF t && mem C16.Model.CR t && forallb (fun c => mem c forb) t.
Lemma lineseps_ok_current : lineseps_ok gen.T02.READER_LINESEPS gen.T02.NAME_FORBIDDEN = true.
Proof. vm_compute. reflexivity. Qed.

Lemma lineseps_model t forb c : lineseps_ok t forb = true -> mem c t = C16.Model.is_nl c.
Proof.
  unfold lineseps_ok. intro H.
  repeat match type of H with (_ && _ = true) => apply andb_true_iff in H as [H ?] end.
  destruct (mem c t) eqn:E.
  - symmetry. apply mem_In in E. rewrite forallb_forall in H. apply H. exact E.
  - symmetry. unfold C16.Model.is_nl. destruct (N.eqb c C16.Model.LF) eqn:E1.
    + apply N.eqb_eq in E1. subst c. congruence.
    + destruct (N.eqb c C16.Model.CR) eqn:E2; [|reflexivity]. apply N.eqb_eq in E2. subst c. congruence.
Qed.

Lemma lineseps_refused t c n :
  lineseps_ok t gen.T02.NAME_FORBIDDEN = true -> mem c t = true -> name_valid n = true -> mem c n = false.
Proof.
  unfold lineseps_ok, name_valid. intros H Hc Hn.
  repeat match type of H with (_ && _ = true) => apply andb_true_iff in H as [H ?] end.
  apply andb_true_iff in Hn as [_ Hn]. apply negb_true_iff in Hn.
  apply (existsb_false_mem _ _ _ Hn).
  match goal with K : forallb (fun c => mem c _) t = true |- _ => rewrite forallb_forall in K; apply K end.
  apply mem_In. exact Hc.
Qed.

Lemma nonws_app a b : nonws (a ++ b) = nonws a && nonws b.
Proof. unfold nonws. apply forallb_app. Qed.

Lemma enc_body_nonws p : nonws (enc_body p) = true.
Proof.
  induction p as [|c p IH]; [reflexivity|].
  unfold enc_body. cbn [flat_map]. fold (enc_body p). rewrite !nonws_app, IH.
  rewrite (C16.Lemmas.digits_nonws _ (C16.Lemmas.dec_N_digits c)). reflexivity.
Qed.

Lemma enc_pw_safe p : C16.Model.safe_field (enc_pw p) = true.
Proof.
  unfold enc_pw, C16.Model.safe_field. apply andb_true_iff. split; [|reflexivity].
  apply C16.Lemmas.nonws_no_nl_tab. rewrite nonws_app, enc_body_nonws. reflexivity.
Qed.

Lemma token_fold c : C16.Model.token (C16.Model.fold c) = C16.Model.token c.
Proof.
  unfold C16.Model.token. f_equal.
  - destruct c; reflexivity.
  - unfold C16.Model.fold. induction c as [|x c IH]; [reflexivity|].
    cbn [map forallb]. rewrite IH. f_equal. f_equal. exact (C03.Fold.fold_char_ws x).
Qed.

(* ---- capability sets ---- *)
Lemma In_smem x S : In x S -> C03.Model.smem x S = true.
Proof. intro H. unfold C03.Model.smem. apply existsb_exists. exists x. split; [exact H|apply seq_eqb_refl]. Qed.
Lemma smem_In x S : C03.Model.smem x S = true -> In x S.
Proof.
  unfold C03.Model.smem. rewrite existsb_exists. intros [y [Hy E]]. apply seq_eqb_eq in E. subst. exact Hy.
Qed.

Lemma ucs_add_addable S c cs :
  C03.Model.ucs_add S c = Ok cs -> C16.Model.token (C16.Model.fold c) = true ->
  forallb addable S = true -> forallb addable cs = true.
Proof.
  rewrite ucs_add_eq. unfold C16.Model.ucs_add, C16.Model.cs_add.
  set (f := C16.Model.fold c). destruct (seq_eqb f C16.Model.ANTIOWNER) eqn:Ea; [discriminate|].
  replace (C16.Model.fold f) with f by (unfold f; symmetry; apply fold16_idem).
  destruct (C16.Model.invertCapability f) as [inv|] eqn:Ei; [|discriminate]. cbn [bind].
  intros H Ht HS. inversion H; subst cs; clear H.
  assert (Hf : addable f = true).
  { unfold addable. rewrite Ht, Ea, Ei. unfold f. rewrite fold16_idem, seq_eqb_refl. reflexivity. }
  assert (HS1 : forallb addable (C16.Model.sremove inv S) = true).
  { eapply forallb_sub; [|exact HS]. intros x. apply In_sremove. }
  destruct (C16.Model.smem f _); [exact HS1|]. rewrite forallb_app, HS1. simpl. rewrite Hf. reflexivity.
Qed.

Lemma sremove_addable x S : forallb addable S = true -> forallb addable (C03.Model.sremove x S) = true.
Proof. intro H. eapply forallb_sub; [|exact H]. intros y. apply (In_sremove y x S). Qed.

Lemma ucs_add_isCap S c cs : C03.Model.ucs_add S c = Ok cs -> C16.Model.one_word c = true.
Proof.
  unfold C03.Model.ucs_add. destruct (seq_eqb _ _); [discriminate|].
  unfold C03.Model.cs_add. destruct (C03.Model.invertCapability _) as [d|] eqn:E; [|discriminate]. intros _.
  unfold C03.Model.invertCapability in E.
  destruct (C03.Model.isCapability (C03.Model.fold (C03.Model.fold c))) eqn:K; [|discriminate].
  unfold C03.Model.isCapability in K. rewrite !C03.Fold.fold_one_word in K. exact K.
Qed.

Lemma skip_ws_nil_all l : C16.Model.skip_ws l = [] -> forallb ws16 l = true.
Proof.
  induction l as [|c l IH]; [reflexivity|]. simpl. destruct (ws16 c) eqn:E; [|discriminate]. exact IH.
Qed.

Lemma ws_comma16 : ws16 COMMA = false. Proof. vm_compute. reflexivity. Qed.

Lemma one_word_prefix l rest :
  C16.Model.skip_ws (C16.Model.skip_word (l ++ COMMA :: rest)) = [] -> nonws l = true.
Proof.
  induction l as [|c l IH]; [reflexivity|]. cbn [app C16.Model.skip_word].
  destruct (ws16 c) eqn:E.
  - intro H. apply skip_ws_nil_all in H. cbn [forallb] in H. apply andb_true_iff in H as [_ H].
    rewrite forallb_app in H. apply andb_true_iff in H as [_ H]. cbn [forallb] in H.
    rewrite ws_comma16 in H. discriminate.
  - intro H. cbn [C16.Lemmas.nonws forallb]. rewrite E. exact (IH H).
Qed.

Definition chantypes_ok (t : list N) : bool := forallb (fun c => negb (ws16 c)) t.
Lemma chantypes_ok_current : chantypes_ok gen.T03.CHANTYPES = true.
Proof. vm_compute. reflexivity. Qed.

Lemma chan_token ch w :
  C16.Model.one_word (ch ++ COMMA :: w) = true -> C03.Model.isChannel ch = true -> nonws w = true ->
  C16.Model.token (ch ++ COMMA :: w) = true.
Proof.
  intros Ho Hc Hw. unfold C03.Model.isChannel in Hc.
  repeat match type of Hc with (_ && _ = true) => apply andb_true_iff in Hc as [Hc ?] end.
  destruct ch as [|c0 ch]; [discriminate|].
  assert (E0 : ws16 c0 = false).
  { match goal with H : C03.Model.hd_in _ _ = true |- _ => unfold C03.Model.hd_in in H; apply mem_In in H end.
    pose proof chantypes_ok_current as K. unfold chantypes_ok in K. rewrite forallb_forall in K.
    apply negb_true_iff. apply K. assumption. }
  unfold C16.Model.one_word in Ho. cbn [app C16.Model.skip_ws] in Ho. rewrite E0 in Ho.
  cbn [C16.Model.skip_word] in Ho. rewrite E0 in Ho.
  destruct (C16.Model.skip_ws (C16.Model.skip_word (ch ++ COMMA :: w))) eqn:K; [|discriminate].
  apply one_word_prefix in K.
  unfold C16.Model.token. cbn [app nonempty forallb]. rewrite E0. cbn [negb andb].
  rewrite forallb_app. fold (nonws ch). rewrite K. cbn [forallb]. rewrite ws_comma16. exact Hw.
Qed.

Lemma take_word_nonws t : nonws (C16.Model.take_word t) = true.
Proof.
  induction t as [|c t IH]; [reflexivity|]. simpl. destruct (ws16 c) eqn:E; [reflexivity|].
  cbn [C16.Lemmas.nonws forallb]. rewrite E. exact IH.
Qed.

Lemma split_ws_single c w : C16.Model.split_ws c = [w] -> nonws w = true.
Proof.
  unfold C16.Model.split_ws. cbn [C16.Model.split_ws_fuel].
  destruct (C16.Model.skip_ws c) as [|x t]; [discriminate|]. intro H.
  assert (E : w = C16.Model.take_word (x :: t)) by congruence. rewrite E. apply take_word_nonws.
Qed.

(* ---- accounts ---- *)

Definition mut_inv (a : acct) (m : mut) : Prop :=
  match m with
  | MName n => nonempty n = true /\ name_valid n = true
  | MHostAdd h => C16.Model.is_user_hostmask h = true
  | MCaps cs => forallb addable (caps a) = true -> forallb addable cs = true
  | _ => True
  end.

Definition eff_inv (s : st) (e : effect) : Prop :=
  match e with
  | ESet a m => In a (s_users s) /\ mut_inv a m
  | ERegister name pw _ => nonempty name = true /\ name_valid name = true
  | _ => True
  end.

Ltac proj := cbn [a_u C16.Model.u_id C16.Model.u_name C16.Model.u_ignore C16.Model.u_secure C16.Model.u_hashed
                  C16.Model.u_password C16.Model.u_caps C16.Model.u_hosts C16.Model.u_nicks C16.Model.u_gpg
                  C16.Model.set_name C16.Model.set_password C16.Model.set_hosts C16.Model.set_secure
                  C16.Model.set_caps caps] in *.

Lemma forallb_In {A} (f : A -> bool) l x : forallb f l = true -> In x l -> f x = true.
Proof. intros H Hx. rewrite forallb_forall in H. auto. Qed.

Lemma In_iset_add S h x : In x (C16.Model.iset_add S h) -> In x S \/ x = h.
Proof.
  unfold C16.Model.iset_add. destruct (C16.Model.iset_mem h S); [left; assumption|].
  intro H. apply in_app_or in H as [H|[H|[]]]; [left; exact H|right; auto].
Qed.
Lemma In_iset_remove S h x : In x (C16.Model.iset_remove S h) -> In x S.
Proof. unfold C16.Model.iset_remove. intro H. apply filter_In in H. tauto. Qed.

Lemma wf_mutate a m : wf_acct a = true -> mut_inv a m -> wf_acct (mutate a m) = true.
Proof.
  destruct a as [u au]. destruct u as [id name ign sec hashed pw cs hosts nicks gpg].
  unfold wf_acct. intros H Hm.
  pose proof H as H0. unfold wf_user in H0. proj.
  repeat match type of H0 with (_ && _ = true) => apply andb_true_iff in H0 as [H0 ?] end.
  destruct m; unfold mutate, set_pw; proj; try exact H.
  - (* MName *) destruct Hm as [Hne Hv]. destruct (name_valid_safe _ Hne Hv) as [S1 S2].
    unfold wf_user. proj. rewrite S1, S2.
    repeat match goal with K : _ = true |- _ => rewrite K end. reflexivity.
  - (* MPass *) subst hashed. proj. unfold wf_user. proj. rewrite enc_pw_safe.
    repeat match goal with K : _ = true |- _ => rewrite K end. reflexivity.
  - (* MHostAdd *) cbn in Hm.
    assert (Hh : forallb C16.Model.is_user_hostmask (C16.Model.iset_add hosts h) = true).
    { apply forallb_forall. intros x Hx. destruct (In_iset_add _ _ _ Hx) as [K|K]; [|subst x; exact Hm].
      eapply forallb_In; [|exact K]. assumption. }
    unfold wf_user. proj. rewrite Hh.
    repeat match goal with K : _ = true |- _ => rewrite K end. reflexivity.
  - (* MHostDel *)
    assert (Hh : forallb C16.Model.is_user_hostmask (C16.Model.iset_remove hosts h) = true).
    { eapply forallb_sub; [|eassumption]. intros x. apply In_iset_remove. }
    unfold wf_user. proj. rewrite Hh.
    repeat match goal with K : _ = true |- _ => rewrite K end. reflexivity.
  - (* MHostClear *) unfold wf_user. proj. cbn [forallb].
    repeat match goal with K : _ = true |- _ => rewrite K end. reflexivity.
  - (* MCaps *) unfold wf_user. proj. rewrite (Hm ltac:(assumption)).
    repeat match goal with K : _ = true |- _ => rewrite K end. reflexivity.
Qed.

(* ---- the invariant ---- *)
Record Inv (s : st) : Prop := {
  inv_users : forallb wf_acct (s_users s) = true;
  inv_next : (0 <= s_next s)%Z;
  inv_creator : creator_ok (s_creator s) }.

Lemma forallb_put (f : acct -> bool) a us : f a = true -> forallb f us = true -> forallb f (put a us) = true.
Proof.
  intros Ha. induction us as [|b r IH]; simpl; intro H; [rewrite Ha; reflexivity|].
  apply andb_true_iff in H as [Hb Hr].
  destruct (Z.eqb (aid b) (aid a)); simpl; [rewrite Ha, Hr|rewrite Hb, (IH Hr)]; reflexivity.
Qed.

Lemma forallb_filter {A} (f g : A -> bool) l : forallb f l = true -> forallb f (filter g l) = true.
Proof. intro H. eapply forallb_sub; [|exact H]. intros x Hx. apply filter_In in Hx. tauto. Qed.

Lemma aid_nonneg a : wf_acct a = true -> (0 <= aid a)%Z.
Proof.
  unfold wf_acct. intro H. destruct (wf_user_parts _ H) as ((z & E & Hz) & _).
  unfold aid, C16.Model.id_of. rewrite E. exact Hz.
Qed.

Opaque mutate.
Lemma apply_effect_inv s E e : Inv s -> eff_inv s e -> Inv (apply_effect s E e).
Proof.
  intros [Hu Hn Hc] He.
  destruct e as [|a m|z|name pw addmask|ch c|h|h]; try (constructor; assumption).
  - destruct He as [Hin Hm].
    pose proof (forallb_In _ _ _ Hu Hin) as Ha.
    pose proof (wf_mutate a m Ha Hm) as Ha'.
    pose proof (aid_nonneg _ Ha) as N0. pose proof (aid_nonneg _ Ha') as N1.
    constructor.
    + destruct (eset_users s E a m) as [K|[K|(h & Em & K)]]; rewrite K.
      * apply forallb_put; assumption.
      * exact Hu.
      * apply forallb_put; [|apply forallb_put; assumption]. apply wf_mutate; [exact Ha'|exact Logic.I].
    + destruct (eset_next s E a m) as [K|K]; rewrite K; lia.
    + rewrite eset_rest. exact Hc.
  - constructor; simpl; [|exact Hn|exact Hc]. unfold del. apply forallb_filter. exact Hu.
  - destruct He as [Hne Hv]. destruct (name_valid_safe _ Hne Hv) as [S1 S2].
    destruct (ereg_shape s E name pw addmask) as (Kn & Kc & Ku).
    assert (W1 : wf_acct (Acct (reg_u1 s name pw) []) = true).
    { unfold wf_acct, wf_user, reg_u1, set_pw. proj. rewrite S1, S2, enc_pw_safe.
      (replace (0 <=? s_next s + 1)%Z with true by (symmetry; apply Z.leb_le; lia)). reflexivity. }
    constructor.
    + destruct Ku as [K|[K|[Hm K]]]; rewrite K.
      * unfold del. apply forallb_filter. exact Hu.
      * apply forallb_put; assumption.
      * apply forallb_put; [|exact Hu].
        unfold wf_acct, wf_user, reg_u1, set_pw. proj. rewrite S1, S2, enc_pw_safe.
        (replace (0 <=? s_next s + 1)%Z with true by (symmetry; apply Z.leb_le; lia)).
        unfold C16.Model.iset_add. cbn. rewrite Hm. reflexivity.
    + rewrite Kn. lia.
    + rewrite Kc. exact Hc.
Qed.
Transparent mutate.

(* ---- every effect of a command keeps the invariant ---- *)
Ltac crack' :=
  repeat match goal with
         | |- eff_inv _ (match ?x with _ => _ end) => destruct x eqn:?
         | |- eff_inv _ (if ?x then _ else _) => destruct x eqn:?
         end; subst.

Ltac fin' :=
  simpl; try exact Logic.I;
  try (split; [eauto using conv_other_In, caller_In, parse_hm_In|simpl; try exact Logic.I]).

Ltac bools :=
  repeat match goal with
         | H : _ && _ = true |- _ => apply andb_true_iff in H as [? ?]
         | H : negb _ = false |- _ => apply negb_false_iff in H
         end.

Lemma i_register s E args : eff_inv s (d_register s E args).
Proof. unfold d_register. crack'; simpl; try exact Logic.I; bools; split; assumption. Qed.
Lemma i_unregister s E args : eff_inv s (d_unregister s E args).
Proof. unfold d_unregister. cbv beta zeta. crack'; fin'. Qed.
Lemma i_changename s E args : eff_inv s (d_changename s E args).
Proof.
  unfold d_changename. cbv beta zeta. crack'; simpl; try exact Logic.I; bools;
    (split; [eauto using conv_other_In|split; assumption]).
Qed.
Lemma i_identify s E args : eff_inv s (d_identify s E args).
Proof. unfold d_identify. crack'; fin'. Qed.
Lemma i_unidentify s E args : eff_inv s (d_unidentify s E args).
Proof. unfold d_unidentify. crack'; fin'. Qed.
Lemma i_hostadd s E args : eff_inv s (d_hostadd s E args).
Proof. unfold d_hostadd. cbv beta zeta. crack'; fin'; bools; assumption. Qed.
Lemma i_hostremove s E args : eff_inv s (d_hostremove s E args).
Proof. unfold d_hostremove. cbv beta zeta. crack'; fin'. Qed.
Lemma i_setsecure s E args : eff_inv s (d_setsecure s E args).
Proof. unfold d_setsecure. cbv beta zeta. crack'; fin'. Qed.
Lemma i_aignadd s E args : eff_inv s (d_aignadd s E args).
Proof. unfold d_aignadd. cbv beta zeta. crack'; fin'. Qed.
Lemma i_aignremove s E args : eff_inv s (d_aignremove s E args).
Proof. unfold d_aignremove. crack'; fin'. Qed.

Lemma i_setpassword s E args : eff_inv s (d_setpassword s E args).
Proof.
  pose proof (d_setpassword_ok s E args) as K. destruct (d_setpassword s E args) as [|a m| | | | |] eqn:D; try exact Logic.I.
  - destruct K as [Hin _]. split; [exact Hin|].
    unfold d_setpassword in D.
    repeat match type of D with
           | (let '(_, _) := ?x in _) = _ => destruct x
           | match ?x with _ => _ end = _ => destruct x; try discriminate
           | (if ?x then _ else _) = _ => destruct x; try discriminate
           end; inversion D; exact Logic.I.
  - exfalso. unfold d_setpassword in D.
    repeat match type of D with
           | (let '(_, _) := ?x in _) = _ => destruct x
           | match ?x with _ => _ end = _ => destruct x; try discriminate
           | (if ?x then _ else _) = _ => destruct x; try discriminate
           end.
Qed.

Lemma i_acapadd s E args : eff_inv s (d_acapadd s E args).
Proof.
  unfold d_acapadd. cbv beta zeta. crack'; fin'.
  all: bools; intro HS;
    match goal with H : C03.Model.ucs_add _ _ = Ok _ |- _ => apply (ucs_add_addable _ _ _ H); [|exact HS] end;
    rewrite token_fold; assumption.
Qed.

Lemma i_acapremove s E args : eff_inv s (d_acapremove s E args).
Proof.
  unfold d_acapremove. cbv beta zeta. crack'; fin'.
  all: intro HS; apply sremove_addable; exact HS.
Qed.

Lemma i_ccap k s E args : eff_inv s (d_ccap k s E args).
Proof.
  unfold d_ccap. destruct (conv_op s E args) as [[ch r]|] eqn:CO; [|exact Logic.I].
  assert (Hch : C03.Model.isChannel ch = true).
  { unfold conv_op in CO.
    destruct (match args with [] => _ | _ :: _ => _ end) as [[ch0 r0]|]; [|discriminate].
    destruct (C03.Model.isChannel ch0) eqn:K; [|discriminate].
    destruct (holds _ _ _); [|discriminate]. inversion CO; subst. exact K. }
  destruct k; try exact Logic.I; crack'; fin'.
  all: intro HS; try (apply sremove_addable; exact HS).
  all: match goal with H : C03.Model.ucs_add _ _ = Ok _ |- _ =>
         apply (ucs_add_addable _ _ _ H); [|exact HS]; rewrite token_fold;
         apply chan_token; [exact (ucs_add_isCap _ _ _ H)|exact Hch|eapply split_ws_single; eassumption]
       end.
Qed.

Lemma decide_inv k s E args : eff_inv s (decide k s E args).
Proof.
  unfold decide. destruct (needs_private k && negb (in_private E)); [exact Logic.I|].
  destruct k; simpl;
    auto using i_register, i_unregister, i_changename, i_identify, i_unidentify, i_hostadd, i_hostremove,
      i_setpassword, i_setsecure, i_acapadd, i_acapremove, i_aignadd, i_aignremove, i_ccap.
Qed.

Lemma effect_of_inv s E text : eff_inv s (effect_of s E text).
Proof.
  unfold effect_of.
  destruct (ignored s E); [exact Logic.I|].
  destruct (tokens text); [|exact Logic.I].
  destruct (find_cmd commands l) as [[[ws k] args]|]; [|exact Logic.I].
  destruct (gate_blocked s E ws); [exact Logic.I|]. apply decide_inv.
Qed.

(* ---- flush + reload ---- *)
Lemma wf_norm w : wf_user w = true -> wf_user (norm w) = true /\ wf_user (C16.Model.set_hosts [] (norm w)) = true.
Proof.
  destruct w as [id name ign sec hashed pw cs hosts nicks gpg]. intro H.
  pose proof H as H0. unfold wf_user in H0. proj.
  repeat match type of H0 with (_ && _ = true) => apply andb_true_iff in H0 as [H0 ?] end.
  assert (Hc : forallb addable (readd cs) = true).
  { eapply forallb_sub; [|eassumption]. apply readd_spec. assumption. }
  assert (Hh : forallb C16.Model.is_user_hostmask (fold_left C16.Model.iset_add (map C02.Model.strip_lf hosts) []) = true).
  { apply forallb_forall. intros x Hx. destruct (In_iset_adds _ _ _ Hx) as [[]|K].
    apply in_map_iff in K as (h & Eh & Hh). subst x. apply hm_strip. eapply forallb_In; eassumption. }
  unfold norm, wf_user. proj. rewrite Hc, Hh. cbn [forallb].
  repeat match goal with K : _ = true |- _ => rewrite K end. split; reflexivity.
Qed.

Lemma loaded_wf W v : forallb wf_user W = true -> loaded_from W v -> wf_user v = true.
Proof.
  intros HW (w & Hw & [E|E]); subst v; destruct (wf_norm w (forallb_In _ _ _ HW Hw)); assumption.
Qed.

Lemma loaded_cap W v c :
  forallb wf_user W = true -> loaded_from W v -> C03.Model.smem c (C16.Model.u_caps v) = true ->
  exists w, In w W /\ C16.Model.id_of w = C16.Model.id_of v /\ C03.Model.smem c (C16.Model.u_caps w) = true.
Proof.
  intros HW (w & Hw & E) Ho. exists w. split; [exact Hw|].
  pose proof (forallb_In _ _ _ HW Hw) as Hwf. destruct (wf_user_parts _ Hwf) as (_ & _ & _ & _ & _ & Hc & _).
  assert (Ec : C16.Model.u_caps v = readd (C16.Model.u_caps w) /\ C16.Model.id_of v = C16.Model.id_of w).
  { destruct E; subst v; destruct w; split; reflexivity. }
  destruct Ec as [Ec Ei]. split; [symmetry; exact Ei|].
  rewrite Ec in Ho. apply smem_In in Ho. apply In_smem. apply (proj2 (readd_spec _ Hc)). exact Ho.
Qed.

Lemma loaded_owner W v :
  forallb wf_user W = true -> loaded_from W v -> C03.Model.smem OWNER (C16.Model.u_caps v) = true ->
  exists w, In w W /\ C16.Model.id_of w = C16.Model.id_of v /\ C03.Model.smem OWNER (C16.Model.u_caps w) = true.
Proof. apply loaded_cap. Qed.

Lemma forallb_map_iff {A B} (f : B -> bool) (g : A -> B) l : forallb f (map g l) = forallb (fun x => f (g x)) l.
Proof. induction l as [|x l IH]; [reflexivity|]. simpl. rewrite IH. reflexivity. Qed.

Lemma forallb_perm {A} (f : A -> bool) l l' : Permutation l l' -> forallb f l = true -> forallb f l' = true.
Proof.
  intros P H. rewrite forallb_forall in *. intros x Hx. apply H. eapply Permutation_in; [apply Permutation_sym; exact P|exact Hx].
Qed.

Lemma reload_inv_sub s : Inv s ->
  Inv (reload s) /\ owners_sub (s_users (reload s)) (s_users s).
Proof.
  intros [Hu Hn Hc]. unfold reload, C16.Model.write_users.
  set (l := C16.Model.sort_users (db_of s)).
  assert (P : Permutation (db_of s) l) by (apply Permutation_sym, C16.Roundtrip.sort_users_perm).
  assert (Hwf : forallb wf_user l = true).
  { apply (forallb_perm _ _ _ P). unfold db_of. rewrite forallb_map_iff. exact Hu. }
  destruct (s_creator s) as [q|] eqn:Eq.
  - pose proof (read_dirty q l Hc Hwf) as K. cbv zeta in K.
    destruct (C16.Model.read_users_from (Some q) (C16.Model.write_sorted_users l)) as [us e].
    cbn [fst] in K. destruct K as (K1 & K2 & K3). rewrite K1, K2, K3. cbn [map].
    split; [constructor; simpl; [reflexivity|lia|exact Hc]|].
    intros z (a & [] & _).
  - pose proof (read_gen l Hwf) as K. cbv zeta in K.
    destruct (C16.Model.read_users_from None (C16.Model.write_sorted_users l)) as [us e].
    cbn [fst] in K. destruct K as (K1 & K2 & K3).
    split.
    + constructor; simpl; [|exact K3|exact K2].
      rewrite forallb_map_iff. apply forallb_forall. intros v Hv. unfold wf_acct. cbn [a_u].
      eapply loaded_wf; [exact Hwf|]. apply K1. exact Hv.
    + simpl. intros z (a' & Hin & Hz & Ho). apply in_map_iff in Hin as (v & Ev & Hv). subst a'.
      destruct (loaded_owner l v Hwf (K1 v Hv) Ho) as (w & Hw & Hi & Hwo).
      apply (Permutation_in _ (Permutation_sym P)) in Hw. unfold db_of in Hw.
      apply in_map_iff in Hw as (a & Ea & Ha). subst w.
      exists a. split; [exact Ha|]. split; [|exact Hwo].
      unfold aid in *. cbn [a_u] in Hz. congruence.
Qed.

(* a reload never adds a capability to an account *)
Lemma reload_caps s a' c : Inv s ->
  In a' (s_users (reload s)) -> C03.Model.smem c (caps a') = true ->
  exists a, In a (s_users s) /\ aid a = aid a' /\ C03.Model.smem c (caps a) = true.
Proof.
  intros [Hu Hn Hc]. unfold reload, C16.Model.write_users.
  set (l := C16.Model.sort_users (db_of s)).
  assert (P : Permutation (db_of s) l) by (apply Permutation_sym, C16.Roundtrip.sort_users_perm).
  assert (Hwf : forallb wf_user l = true).
  { apply (forallb_perm _ _ _ P). unfold db_of. rewrite forallb_map_iff. exact Hu. }
  destruct (s_creator s) as [q|] eqn:Eq.
  - pose proof (read_dirty q l Hc Hwf) as K. cbv zeta in K.
    destruct (C16.Model.read_users_from (Some q) (C16.Model.write_sorted_users l)) as [us e].
    cbn [fst] in K. destruct K as (K1 & K2 & K3). rewrite K1. cbn [map s_users]. intros [].
  - pose proof (read_gen l Hwf) as K. cbv zeta in K.
    destruct (C16.Model.read_users_from None (C16.Model.write_sorted_users l)) as [us e].
    cbn [fst] in K. destruct K as (K1 & K2 & K3). cbn [s_users].
    intros Hin Ho. apply in_map_iff in Hin as (v & Ev & Hv). subst a'.
    destruct (loaded_cap l v c Hwf (K1 v Hv) Ho) as (w & Hw & Hi & Hwo).
    apply (Permutation_in _ (Permutation_sym P)) in Hw. unfold db_of in Hw.
    apply in_map_iff in Hw as (a & Ea & Ha). subst w.
    exists a. split; [exact Ha|]. split; [|exact Hwo]. unfold aid. cbn [a_u]. exact Hi.
Qed.

Lemma step_inv_sub s o : Inv s -> Inv (step s o) /\ owners_sub (s_users (step s o)) (s_users s).
Proof.
  intros HI. destruct o as [E text| |].
  - split; [apply apply_effect_inv; [exact HI|apply effect_of_inv]|apply step_sub; exact Logic.I].
  - split; [exact HI|apply owners_sub_refl].
  - apply reload_inv_sub; assumption.
Qed.

Lemma run_ops_inv_sub ops : forall s, Inv s ->
  Inv (run_ops s ops) /\ owners_sub (s_users (run_ops s ops)) (s_users s).
Proof.
  unfold run_ops. induction ops as [|o r IH]; intros s HI; simpl.
  - split; [exact HI|apply owners_sub_refl].
  - destruct (step_inv_sub s o HI) as [HI' S1].
    destruct (IH (step s o) HI') as [HI'' S2].
    split; [exact HI''|eapply owners_sub_trans; eassumption].
Qed.

(* the decidable form of the invariant (C02.Model.wf_state) *)
Lemma wf_state_Inv s : wf_state s = true <-> Inv s.
Proof.
  unfold wf_state. split.
  - intro H. apply andb_true_iff in H as [H H3]. apply andb_true_iff in H as [H1 H2].
    constructor; [exact H1|apply Z.leb_le; exact H2|].
    destruct (s_creator s) as [q|]; [|exact Logic.I]. cbn. destruct (C16.Model.u_id q); [discriminate|discriminate].
  - intros [H1 H2 H3]. rewrite H1. apply Z.leb_le in H2. rewrite H2.
    destruct (s_creator s) as [q|]; [|reflexivity]. cbn in H3. destruct (C16.Model.u_id q); [reflexivity|congruence].
Qed.
