(* C02/Reader.v — what unpreserve.Reader + IrcUserCreator (C16/Model.v) make of a users.conf written from
   well-formed accounts, WITHOUT assuming that the accounts are free of id/name/hostmask collisions
   (C16's round-trip theorem needs that; the owner clause of C02 does not): every account loaded is one of the
   accounts written, with its capability list re-added in order (a subset) and its hostmasks either
   re-added or dropped (DuplicateHostmask retry of IrcUserCreator.finish); a collision stops the load. *)
From Coq Require Import List NArith ZArith Bool Arith Lia ZifyBool.
Import ListNotations.
Require Import Base.Wire Base.PyStr C16.Model C16.Lemmas C16.Roundtrip.
Require C03.Fold C02.Bridge C02.Model.
Open Scope N_scope.

(* definitions shared with the harness live in C02/Model.v *)
Notation addable := C02.Model.addable.
Notation wf_user := C02.Model.wf_user.

Lemma nick_ok_eq : C02.Model.nick_ok = nick_ok.
Proof. reflexivity. Qed.

Lemma addable_parts c : addable c = true ->
  token c = true /\ fold c = c /\ seq_eqb c ANTIOWNER = false /\ exists d, invertCapability c = Ok d.
Proof.
  unfold C02.Model.addable. intro H.
  repeat match type of H with (_ && _ = true) => apply andb_true_iff in H as [H ?] end.
  repeat split; try assumption.
  - apply seq_eqb_eq. assumption.
  - apply negb_true_iff. assumption.
  - destruct (invertCapability c); [eexists; reflexivity|discriminate].
Qed.

Lemma In_sremove x y S : In x (sremove y S) -> In x S.
Proof. unfold sremove. intro H. apply filter_In in H. tauto. Qed.

Lemma addable_add S c : addable c = true ->
  exists S', ucs_add S c = Ok S' /\ forall x, In x S' -> In x S \/ x = c.
Proof.
  intro H. destruct (addable_parts _ H) as (_ & Hf & Ha & d & Hd).
  unfold ucs_add, cs_add. rewrite !Hf, Ha, Hd. cbn [bind].
  eexists. split; [reflexivity|]. intros x Hx.
  destruct (smem c (sremove d S)).
  - left. eapply In_sremove; eauto.
  - apply in_app_or in Hx as [Hx|[Hx|[]]]; [left; eapply In_sremove; eauto|right; auto].
Qed.

Lemma readd_ok caps : forall S, forallb addable caps = true ->
  exists S', fold_res ucs_add caps S = Ok S' /\ forall x, In x S' -> In x S \/ In x caps.
Proof.
  induction caps as [|c caps IH]; intros S H.
  - exists S. split; [reflexivity|]. intros x Hx; left; exact Hx.
  - cbn [forallb] in H. apply andb_true_iff in H as [Hc H].
    destruct (addable_add S c Hc) as (S1 & E1 & I1).
    destruct (IH S1 H) as (S' & E' & I').
    exists S'. split; [rewrite fold_res_cons, E1; exact E'|].
    intros x Hx. destruct (I' x Hx) as [K|K].
    + destruct (I1 x K) as [K'|K']; [left; exact K'|right; left; auto].
    + right; right; exact K.
Qed.

Definition readd (caps : list str) : list str :=
  match fold_res ucs_add caps [] with Ok r => r | Raise _ => [] end.

Lemma readd_spec caps : forallb addable caps = true ->
  fold_res ucs_add caps [] = Ok (readd caps) /\ forall x, In x (readd caps) -> In x caps.
Proof.
  intro H. destruct (readd_ok caps [] H) as (S' & E & I). unfold readd. rewrite E. split; [reflexivity|].
  intros x Hx. destruct (I x Hx) as [[]|K]; exact K.
Qed.

Lemma forallb_sub {A} (f : A -> bool) l l' : (forall x, In x l' -> In x l) -> forallb f l = true -> forallb f l' = true.
Proof.
  intros Hs H. rewrite forallb_forall in *. intros x Hx. apply H, Hs, Hx.
Qed.

Lemma In_iset_adds hs : forall S x, In x (fold_left iset_add hs S) -> In x S \/ In x hs.
Proof.
  induction hs as [|h hs IH]; intros S x H; [left; exact H|].
  cbn [fold_left] in H. destruct (IH _ _ H) as [K|K]; [|right; right; exact K].
  unfold iset_add in K. destruct (iset_mem h S); [left; exact K|].
  apply in_app_or in K as [K|[K|[]]]; [left; exact K|right; left; auto].
Qed.

(* ---- well-formed accounts (everything but the hostmasks), and the account a record is read back as ---- *)
(* ---- hostmask lines: isUserHostmask tolerates one trailing newline ---- *)
Notation strip_lf := C02.Model.strip_lf.

Definition hm_body (s : str) : bool :=
  forallb (fun c => negb (ws c)) s &&
  match s with
  | [] => false
  | _ :: t =>
      match index_of BANG t with
      | None => false
      | Some k => match skipn (S k) t with [] => false | _ :: r' => mem AT (removelast r') end
      end
  end.
Lemma hm_unfold h : is_user_hostmask h = hm_body (strip_lf h).
Proof. reflexivity. Qed.

Lemma hm_token h : is_user_hostmask h = true -> token (strip_lf h) = true.
Proof.
  rewrite hm_unfold. unfold hm_body, token. intro H. apply andb_true_iff in H as [H1 H2].
  rewrite H1. destruct (strip_lf h); [discriminate|reflexivity].
Qed.

Lemma strip_lf_cases h : strip_lf h = h \/ h = strip_lf h ++ [LF].
Proof.
  unfold C02.Model.strip_lf. destruct (rev h) as [|c r] eqn:E; [left; reflexivity|].
  destruct (N.eqb c LF) eqn:Ec; [|left; reflexivity]. right. apply N.eqb_eq in Ec. subst c.
  rewrite <- (rev_involutive h), E. reflexivity.
Qed.

Lemma strip_lf_token t : token t = true -> strip_lf t = t.
Proof.
  intro H. unfold C02.Model.strip_lf. destruct (rev t) as [|c r] eqn:E; [reflexivity|].
  destruct (N.eqb c LF) eqn:Ec; [|reflexivity]. exfalso. apply N.eqb_eq in Ec. subst c.
  pose proof (token_nonws _ H) as Hn. pose proof (nonws_rev _ Hn) as Hr. rewrite E in Hr.
  unfold nonws in Hr. cbn [forallb] in Hr. rewrite ws_LF in Hr. discriminate.
Qed.

Lemma hm_strip h : is_user_hostmask h = true -> is_user_hostmask (strip_lf h) = true.
Proof.
  intro H. rewrite hm_unfold. rewrite (strip_lf_token _ (hm_token _ H)). rewrite <- hm_unfold. exact H.
Qed.

Lemma hosts_lines_gen hs : forall u N db next rest,
  u_id u = Some N -> forallb is_user_hostmask hs = true ->
  urt (flat_map (fun h => wline IND gen.T16.WU_hostmask h) hs ++ rest) (S2 db next u)
  = urt rest (S2 db next (set_hosts (fold_left iset_add (map strip_lf hs) (u_hosts u)) u)).
Proof.
  induction hs as [|h hs IH]; intros u N db next rest Hid Ht.
  - destruct u; reflexivity.
  - cbn [forallb] in Ht. apply andb_true_iff in Ht as [Hc Ht].
    pose proof (token_safe _ (hm_token _ Hc)) as Hs.
    cbn [flat_map map fold_left].
    set (t := strip_lf h) in *.
    assert (Hu : user_handler UHostmask t u = Ok (set_hosts (iset_add (u_hosts u) t) u))
      by (unfold user_handler; rewrite Hid; reflexivity).
    rewrite <- app_assoc.
    destruct (strip_lf_cases h) as [E|E]; fold t in E.
    + rewrite <- E.
      rewrite (uline_same db next u _ t UHostmask _ _ tk_hostmask Hs dp_hostmask Hu).
      rewrite (IH (set_hosts (iset_add (u_hosts u) t) u) N db next rest Hid Ht). destruct u; reflexivity.
    + assert (W : wline IND gen.T16.WU_hostmask h = wline IND gen.T16.WU_hostmask t ++ [LF]).
      { rewrite E at 1. unfold wline. repeat rewrite <- app_assoc. reflexivity. }
      rewrite W. rewrite <- app_assoc.
      rewrite (uline_same db next u _ t UHostmask _ _ tk_hostmask Hs dp_hostmask Hu).
      cbn [app]. unfold urt at 1. rewrite rtext_blank. fold urt.
      rewrite (IH (set_hosts (iset_add (u_hosts u) t) u) N db next rest Hid Ht). destruct u; reflexivity.
Qed.

Definition norm (u : user) : user :=
  set_hosts (fold_left iset_add (map strip_lf (u_hosts u)) []) (set_caps (readd (u_caps u)) u).

Lemma wf_user_parts u : wf_user u = true ->
  (exists z, u_id u = Some z /\ (0 <= z)%Z) /\ safe_field (u_name u) = true /\
  is_user_hostmask (u_name u) = false /\ u_hashed u = true /\ safe_field (u_password u) = true /\
  forallb addable (u_caps u) = true /\ forallb nick_ok (u_nicks u) = true /\ nicks_stable (u_nicks u) = true /\
  forallb safe_field (u_gpg u) = true /\ forallb is_user_hostmask (u_hosts u) = true.
Proof.
  unfold C02.Model.wf_user. rewrite nick_ok_eq. intro H.
  repeat match type of H with (_ && _ = true) => apply andb_true_iff in H as [H ?] end.
  repeat split; try assumption.
  - destruct (u_id u) as [z|]; [|discriminate]. exists z. split; [reflexivity|lia].
  - apply negb_true_iff. assumption.
Qed.

Lemma addable_token c : addable c = true -> token c = true.
Proof. intro H. apply addable_parts in H. tauto. Qed.

Lemma body_read_gen u N db next rest :
  u_id u = Some N -> wf_user u = true ->
  urt (write_user_body u ++ rest) (S0 db next (set_id N fresh_user)) = urt rest (S2 db next (norm u)).
Proof.
  intros Hid Hd.
  destruct (wf_user_parts _ Hd) as (_ & Hname & _ & Hh & Hpass & Hcaps & Hnickt & Hnicks0 & Hgpg & Hhostt).
  destruct (readd_spec _ Hcaps) as [Hre _].
  assert (Hcapt : forallb token (u_caps u) = true).
  { rewrite forallb_forall in *. intros x Hx. apply addable_token, Hcaps, Hx. }
  unfold write_user_body. rewrite <- !app_assoc.
  rewrite (name_line N db next _ _ Hname).
  set (u1 := set_name (u_name u) (set_id N fresh_user)).
  rewrite (uline_same db next u1 _ _ UIgnore _ (set_ignore (u_ignore u) u1) tk_ignore (py_bool_safe _) dp_ignore)
    by (unfold user_handler; cbn [u_id u1 set_name set_id]; rewrite safe_eval_py_bool; reflexivity).
  set (u2 := set_ignore (u_ignore u) u1).
  rewrite (uline_same db next u2 _ _ USecure _ (set_secure (u_secure u) u2) tk_secure (py_bool_safe _) dp_secure)
    by (unfold user_handler; cbn [u_id u2 u1 set_ignore set_name set_id]; rewrite safe_eval_py_bool; reflexivity).
  set (u3 := set_secure (u_secure u) u2).
  destruct (u_password u) as [|pc pt] eqn:Epw; [discriminate Hpass|].
  rewrite <- !app_assoc.
  rewrite (uline_same db next u3 _ _ UHashed _ (set_hashed (u_hashed u) u3) tk_hashed (py_bool_safe _) dp_hashed)
    by (unfold user_handler; cbn [u_id u3 u2 u1 set_secure set_ignore set_name set_id]; rewrite safe_eval_py_bool; reflexivity).
  rewrite (uline_same db next _ _ _ UPassword _ (set_password (pc :: pt) (set_hashed (u_hashed u) u3)) tk_password Hpass dp_password)
    by reflexivity.
  set (u4 := set_password (pc :: pt) (set_hashed (u_hashed u) u3)).
  assert (I4 : u_id u4 = Some N) by reflexivity.
  rewrite (caps_lines _ u4 N db next _ _ I4 Hcapt Hre).
  set (u5 := set_caps (readd (u_caps u)) u4).
  rewrite (hosts_lines_gen _ u5 N db next _ I4 Hhostt).
  set (u6 := set_hosts (fold_left iset_add (map strip_lf (u_hosts u)) (u_hosts u5)) u5).
  rewrite (nicks_lines _ u6 N db next _ I4 Hnickt).
  assert (Hn : fold_left (fun d nn => dict_set (fst nn) (snd nn) d) (u_nicks u) (u_nicks u6) = u_nicks u).
  { unfold nicks_stable in Hnicks0.
    apply list_eqb_eq in Hnicks0; [exact Hnicks0|].
    intros [a1 a2] [b1 b2] Hx. cbn [fst snd] in Hx. apply andb_true_iff in Hx as [X1 X2].
    apply seq_eqb_eq in X1. apply seq_list_eqb in X2. subst. reflexivity. }
  rewrite Hn. set (u7 := set_nicks (u_nicks u) u6).
  rewrite (gpg_lines _ u7 N db next _ I4 Hgpg).
  unfold urt. cbn [app]. rewrite rtext_blank.
  f_equal. unfold S2. do 2 f_equal. f_equal.
  unfold norm, u7, u6, u5, u4, u3, u2, u1. destruct u. cbn in *. subst. reflexivity.
Qed.

(* ------------------------------------------------------------------ *)
(* IrcUserCreator.finish / users.setUser for a record that may collide *)

Lemma db_put_In q db v : In v (db_put q db) -> v = q \/ In v db.
Proof.
  induction db as [|b r IH]; simpl; intro H.
  - destruct H as [H|[]]; left; auto.
  - destruct (same_id q b).
    + destruct H as [H|H]; [left; auto|right; right; exact H].
    + destruct H as [H|H]; [right; left; exact H|]. destruct (IH H); [left|right; right]; auto.
Qed.

Lemma set_user_cases st u uid :
  u_id u = Some uid -> is_user_hostmask (u_name u) = false ->
  set_user st u = (UState (us_u st) (db_put u (us_db st)) (Z.max (us_next st) uid), None)
  \/ set_user st u = (UState (us_u st) (us_db st) (Z.max (us_next st) uid), Some DuplicateHostmask).
Proof.
  intros Hid Hn. unfold set_user, get_user_id. rewrite Hid, Hn.
  destruct (find _ (us_db st)); cbn.
  - destruct (negb _); [right; reflexivity|]. destruct (existsb _ _); [right|left]; reflexivity.
  - destruct (existsb _ _); [right|left]; reflexivity.
Qed.

Lemma finish_cases p db next uid :
  u_id p = Some uid -> u_name p <> [] -> is_user_hostmask (u_name p) = false ->
  (exists q next', (q = p \/ q = set_hosts [] p) /\ (next <= next')%Z /\
     user_finish (UState (Some p) db next) = (UState None (db_put q db) next', None))
  \/ (exists q e next', u_id q = Some uid /\ (next <= next')%Z /\
     user_finish (UState (Some p) db next) = (UState (Some q) db next', Some e)).
Proof.
  intros Hid Hne Hn. unfold user_finish. cbn [us_u].
  destruct (u_name p) as [|c t] eqn:En; [congruence|]. rewrite <- En in *.
  destruct (set_user_cases (UState (Some p) db next) p uid Hid Hn) as [E|E]; rewrite E; cbn [us_u us_db us_next].
  - left. exists p, (Z.max next uid). split; [left; reflexivity|]. split; [lia|reflexivity].
  - set (p' := set_hosts [] p).
    assert (Hid' : u_id p' = Some uid) by (destruct p; exact Hid).
    assert (Hn' : is_user_hostmask (u_name p') = false) by (destruct p; exact Hn).
    destruct (set_user_cases (UState (Some p') db (Z.max next uid)) p' uid Hid' Hn') as [E'|E']; rewrite E';
      cbn [us_u us_db us_next].
    + left. exists p', (Z.max (Z.max next uid) uid). split; [right; reflexivity|]. split; [lia|reflexivity].
    + right. exists p', DuplicateHostmask, (Z.max (Z.max next uid) uid). split; [exact Hid'|]. split; [lia|reflexivity].
Qed.

(* the header line "user N" of the next record, read while record p is pending *)
Lemma header_ok N rest p db next db' next' : (0 <= N)%Z ->
  user_finish (UState (Some p) db next) = (UState None db' next', None) ->
  urt (wline [] gen.T16.WH_user (dec_Z N) ++ rest) (S2 db next p) = urt rest (S0 db' next' (set_id N fresh_user)).
Proof.
  intros HN Hf. unfold urt. rewrite wline_seg0.
  pose proof (token_safe _ (dec_Z_token _ HN)) as Hv.
  destruct (seg_nl 0 _ _ tk_user Hv) as [A B].
  rewrite (rtext_line _ _ _ _ _ _ _ A B). rewrite (rstep_seg _ _ _ _ _ _ _ _ tk_user Hv).
  unfold S2. cbn [r_indent indent_differs Nat.eqb negb r_has r_st]. rewrite Hf.
  unfold user_new at 1. cbn [us_u us_db us_next r_st r_indent r_has].
  unfold user_exec. rewrite dp_user. cbn [us_u]. unfold user_handler. cbn [u_id fresh_user].
  rewrite (parse_int_dec _ HN). reflexivity.
Qed.

Lemma header_err N rest p db next st1 e : (0 <= N)%Z ->
  user_finish (UState (Some p) db next) = (st1, Some e) ->
  urt (wline [] gen.T16.WH_user (dec_Z N) ++ rest) (S2 db next p) = (RState (Some 2%nat) true true st1, Some e).
Proof.
  intros HN Hf. unfold urt. rewrite wline_seg0.
  pose proof (token_safe _ (dec_Z_token _ HN)) as Hv.
  destruct (seg_nl 0 _ _ tk_user Hv) as [A B].
  rewrite (rtext_line _ _ _ _ _ _ _ A B). rewrite (rstep_seg _ _ _ _ _ _ _ _ tk_user Hv).
  unfold S2. cbn [r_indent indent_differs Nat.eqb negb r_has r_st r_mod]. rewrite Hf. reflexivity.
Qed.

(* ------------------------------------------------------------------ *)
(* the whole file *)

Definition loaded_from (W : list user) (v : user) : Prop :=
  exists w, In w W /\ (v = norm w \/ v = set_hosts [] (norm w)).
Definition creator_ok (o : option user) : Prop :=
  match o with None => True | Some q => u_id q <> None end.

Lemma loaded_drop W v : loaded_from W v -> loaded_from W (set_hosts [] v).
Proof.
  intros (w & Hw & [E|E]); subst v; exists w; (split; [exact Hw|]); right; [reflexivity|].
  destruct w; reflexivity.
Qed.

Lemma norm_id u : u_id (norm u) = u_id u.        Proof. destruct u; reflexivity. Qed.
Lemma norm_name u : u_name (norm u) = u_name u.  Proof. destruct u; reflexivity. Qed.

Lemma safe_nonnil s : safe_field s = true -> s <> [].
Proof. destruct s; [discriminate|discriminate]. Qed.

Lemma records_gen W todo : forall p db next uid,
  u_id p = Some uid -> u_name p <> [] -> is_user_hostmask (u_name p) = false ->
  forallb wf_user todo = true ->
  (forall v, In v db -> loaded_from W v) -> loaded_from W p -> (forall w, In w todo -> In w W) ->
  (0 <= next)%Z ->
  let r := ufin (urt (flat_map write_user todo) (S2 db next p)) in
  (forall v, In v (us_db (fst r)) -> loaded_from W v) /\ creator_ok (us_u (fst r)) /\ (0 <= us_next (fst r))%Z.
Proof.
  induction todo as [|u todo IH]; intros p db next uid Hid Hne Hn Hd Hdb Hp Hsub Hnext.
  - cbn [flat_map]. unfold urt. rewrite rtext_nil. unfold ufin, S2. cbn [r_mod r_st].
    destruct (finish_cases p db next uid Hid Hne Hn) as [(q & n' & Hq & Hle & E)|(q & e & n' & Hq & Hle & E)];
      rewrite E; cbn [fst us_db us_u us_next].
    + split; [|split; [exact Logic.I|lia]].
      intros v Hv. destruct (db_put_In _ _ _ Hv) as [K|K]; [|apply Hdb; exact K].
      subst v. destruct Hq as [K|K]; subst q; [exact Hp|apply loaded_drop; exact Hp].
    + split; [exact Hdb|]. split; [cbn; congruence|lia].
  - cbn [forallb] in Hd. apply andb_true_iff in Hd as [Hu Hd].
    destruct (wf_user_parts _ Hu) as ((N & Eid & HN) & Hname & Hnh & _).
    cbn [flat_map]. unfold write_user, id_of. rewrite Eid. rewrite <- !app_assoc.
    destruct (finish_cases p db next uid Hid Hne Hn) as [(q & n' & Hq & Hle & E)|(q & e & n' & Hq & Hle & E)].
    + rewrite (header_ok N _ p db next _ _ HN E).
      rewrite (body_read_gen u N _ _ _ Eid Hu).
      apply (IH (norm u) (db_put q db) n' N).
      * rewrite norm_id; exact Eid.
      * rewrite norm_name. apply safe_nonnil; exact Hname.
      * rewrite norm_name; exact Hnh.
      * exact Hd.
      * intros v Hv. destruct (db_put_In _ _ _ Hv) as [K|K]; [|apply Hdb; exact K].
        subst v. destruct Hq as [K|K]; subst q; [exact Hp|apply loaded_drop; exact Hp].
      * exists u. split; [apply Hsub; left; reflexivity|left; reflexivity].
      * intros w Hw. apply Hsub. right. exact Hw.
      * lia.
    + rewrite (header_err N _ p db next _ _ HN E). unfold ufin. cbn [fst r_st us_db us_u us_next].
      split; [exact Hdb|]. split; [cbn; congruence|lia].
Qed.

Lemma read_from_unfold c text :
  read_users_from c text = ufin (urt text (RState None false false (UState c [] 0%Z))).
Proof. reflexivity. Qed.

(* a clean creator: everything loaded comes from a written record *)
Lemma read_gen l :
  forallb wf_user l = true ->
  let r := read_users_from None (write_sorted_users l) in
  (forall v, In v (us_db (fst r)) -> loaded_from l v) /\ creator_ok (us_u (fst r)) /\ (0 <= us_next (fst r))%Z.
Proof.
  intros Hd. destruct l as [|u s].
  - cbn. split; [intros v []|]. split; [exact Logic.I|lia].
  - cbn [forallb] in Hd. apply andb_true_iff in Hd as [Hu Hd].
    destruct (wf_user_parts _ Hu) as ((N & Eid & HN) & Hname & Hnh & _).
    assert (E : read_users_from None (write_sorted_users (u :: s))
                = ufin (urt (flat_map write_user s) (S2 [] 0%Z (norm u)))).
    { change (read_users_from None) with read_users. rewrite read_users_unfold.
      unfold write_sorted_users. cbn [flat_map]. unfold write_user at 1, id_of. rewrite Eid. rewrite <- app_assoc.
      rewrite (user_line_first N _ HN). rewrite (body_read_gen u N _ _ _ Eid Hu). reflexivity. }
    rewrite E.
    apply (records_gen (u :: s) s (norm u) [] 0%Z N).
    + rewrite norm_id; exact Eid.
    + rewrite norm_name. apply safe_nonnil; exact Hname.
    + rewrite norm_name; exact Hnh.
    + exact Hd.
    + intros v [].
    + exists u. split; [left; reflexivity|left; reflexivity].
    + intros w Hw. right. exact Hw.
    + lia.
Qed.

(* a half-built record left in IrcUserCreator.u by an earlier failed load: nothing is loaded at all *)
Lemma read_dirty q l :
  u_id q <> None -> forallb wf_user l = true ->
  let r := read_users_from (Some q) (write_sorted_users l) in
  us_db (fst r) = [] /\ us_u (fst r) = Some q /\ us_next (fst r) = 0%Z.
Proof.
  intros Hq Hd. destruct l as [|u s].
  - cbn. auto.
  - cbn [forallb] in Hd. apply andb_true_iff in Hd as [Hu _].
    destruct (wf_user_parts _ Hu) as ((N & Eid & HN) & _).
    assert (E : read_users_from (Some q) (write_sorted_users (u :: s))
                = (UState (Some q) [] 0%Z, Some ValueError)).
    { rewrite read_from_unfold. unfold write_sorted_users. cbn [flat_map]. unfold write_user at 1, id_of.
      rewrite Eid. rewrite <- app_assoc. unfold urt. rewrite wline_seg0.
      pose proof (token_safe _ (dec_Z_token _ HN)) as Hv.
      destruct (seg_nl 0 _ _ tk_user Hv) as [A B].
      rewrite (rtext_line _ _ _ _ _ _ _ A B). rewrite (rstep_seg _ _ _ _ _ _ _ _ tk_user Hv).
      cbn [r_indent indent_differs r_has r_st]. unfold user_new at 1. cbn [us_u us_db us_next r_st r_indent r_has].
      unfold user_exec. rewrite dp_user. cbn [us_u]. unfold user_handler.
      destruct (u_id q) as [z|] eqn:Ez; [|congruence]. reflexivity. }
    rewrite E. cbn. auto.
Qed.
