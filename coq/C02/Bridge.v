(* C02/Bridge.v — the capability algebra of C03/Model.v and the copy inside C16/Model.v are the same functions
   (the two regenerated tables T03 / T16 hold the same folding table, whitespace set, channel types). *)
From Coq Require Import List NArith ZArith Bool.
Import ListNotations.
Require Import Base.Wire Base.PyStr.
Require C03.Model C03.Fold C16.Model.

Lemma ws_eq c : C03.Model.ws c = C16.Model.ws c.
Proof. reflexivity. Qed.
Lemma fold_eq s : C03.Model.fold s = C16.Model.fold s.
Proof. reflexivity. Qed.
Lemma one_word_eq s : C03.Model.one_word s = C16.Model.one_word s.
Proof. reflexivity. Qed.
Lemma isCapability_eq s : C03.Model.isCapability s = C16.Model.isCapability s.
Proof. reflexivity. Qed.
Lemma isChannel_eq s : C03.Model.isChannel s = C16.Model.isChannel s.
Proof. reflexivity. Qed.
Lemma chan_parts_eq s : C03.Model.chan_parts s = C16.Model.chan_parts s.
Proof. reflexivity. Qed.
Lemma isAnti_eq s : C03.Model.isAntiCapability s = C16.Model.isAntiCapability s.
Proof. reflexivity. Qed.
Lemma mcc_eq a b : C03.Model.makeChannelCapability a b = C16.Model.makeChannelCapability a b.
Proof. reflexivity. Qed.

Lemma invert_eq c : C03.Model.invertCapability c = C16.Model.invertCapability c.
Proof.
  unfold C03.Model.invertCapability, C16.Model.invertCapability.
  change (C16.Model.isCapability c) with (C03.Model.isCapability c).
  change (C16.Model.isAntiCapability c) with (C03.Model.isAntiCapability c).
  change (C16.Model.chan_parts c) with (C03.Model.chan_parts c).
  destruct (C03.Model.isCapability c) eqn:Hc; simpl; [|reflexivity].
  destruct (C03.Model.isAntiCapability c) eqn:Ha.
  - unfold C03.Model.unAntiCapability. rewrite Hc, Ha. simpl. reflexivity.
  - unfold C03.Model.makeAntiCapability. rewrite Hc, Ha. simpl.
    destruct (C03.Model.chan_parts c) as [[ch cap]|]; reflexivity.
Qed.

Lemma cs_add_eq S c : C03.Model.cs_add S c = C16.Model.cs_add S c.
Proof.
  unfold C03.Model.cs_add, C16.Model.cs_add. rewrite invert_eq. reflexivity.
Qed.

Lemma ucs_add_eq S c : C03.Model.ucs_add S c = C16.Model.ucs_add S c.
Proof.
  unfold C03.Model.ucs_add, C16.Model.ucs_add.
  change (C16.Model.fold c) with (C03.Model.fold c).
  change C16.Model.ANTIOWNER with C03.Model.ANTIOWNER.
  destruct (seq_eqb (C03.Model.fold c) C03.Model.ANTIOWNER); [reflexivity|]. apply cs_add_eq.
Qed.

Lemma fold16_idem s : C16.Model.fold (C16.Model.fold s) = C16.Model.fold s.
Proof. exact (C03.Fold.fold_idem s). Qed.
